(* Scratch prototype, Tier 3 slice: exporter/xhtml for the single-file fragment mode (-a, no -s) *)
From Coq Require Import List NArith ZArith Bool Lia Arith String.
Import ListNotations.
Require Import St Text Common.
Open Scope N_scope.

Module X.
Definition custom_ids (s : st) : bool := truthy (assoc (R "xhtml-custom-ids") (params s)).

Definition epub (s : st) : bool := Nat.eqb (mode s) 3.
Definition multi (s : st) : bool := Nat.eqb (mode s) 2 || epub s.
Definition suffix (s : st) : str := if epub s then R ".xhtml" else R ".html".
Definition dec2 (n : nat) : str := if Nat.ltb n 10 then R "0" ++ dec n else dec n.
Definition custom_file_names (s : st) : bool := truthy (assoc (R "xhtml-chap-custom-filenames") (params s)).
Definition has_slash (x : str) : bool := existsb (N.eqb 47) x.
(* utils.go idIsSafe: an id that can be written as it is in attribute values and file names *)
Definition id_safe (x : str) : bool := negb (contains_any id_unsafe_chars x).
Definition chapname (s : st) : str :=
  let idt := if custom_file_names s && negb (has_slash (cid s)) && id_safe (cid s) then cid s else [] in
  match idt with [] => dec (pcount (toc s)) ++ R "-" ++ dec2 (ccount (toc s)) | _ => idt end.
Definition fprefix (s : st) : str := match assoc (R "xhtml-chap-prefix") (params s) with Some p => p | None => R "body" end.
Definition gen_ref_s (s : st) (prefix id : str) (hasfile : bool) : str :=
  if negb (multi s) then R "#" ++ prefix ++ id else
  let file := fprefix s ++ R "-" ++ chapname s ++ suffix s in
  if hasfile then file
  else if Nat.ltb 0 (pcount (toc s)) || Nat.ltb 0 (ccount (toc s)) then file ++ R "#" ++ prefix ++ id
  else R "index" ++ suffix s ++ R "#" ++ prefix ++ id.
Definition header_reference (s : st) : str :=
  let idt := if custom_ids s && id_safe (cidx s) then cidx s else [] in
  let m := macro s in
  let chap := str_eqb (firstn 2 m) (R "Pt") || str_eqb (firstn 2 m) (R "Ch") in
  if chap then (match idt with [] => gen_ref_s s (R "s") (dec (hcount (toc s))) true | _ => gen_ref_s s [] idt true end)
  else if negb (multi s) then (match idt with [] => gen_ref_s s (R "s") (dec (hcount (toc s))) false | _ => gen_ref_s s [] idt false end)
  else (match idt with [] => gen_ref_s s (R "s") (dec (scount (toc s)) ++ R "-" ++ dec (sscount (toc s))) false | _ => gen_ref_s s [] idt false end).
Fixpoint after_first (c : rune) (l : str) : option str :=
  match l with [] => None | x :: r => if x =? c then Some r else after_first c r end.
Fixpoint before_last (c : rune) (l : str) : option str :=
  match l with
  | [] => None
  | x :: r => match before_last c r with
              | Some t => Some (x :: t)
              | None => if x =? c then Some [] else None
              end
  end.
Definition get_id (s : st) (e : lox) : str :=
  if negb (multi s) then (if custom_ids s && negb (str_eqb (lx_id e) []) && id_safe (lx_id e) then lx_id e else R "s" ++ dec (lx_count e))
  else
    let a := match after_first 35 (lx_ref e) with Some t => t | None => lx_ref e end in
    match before_last 46 a with Some t => t | None => a end.

(* document header and footer (xhtml 5 / 4, no user-supplied top/bottom files) *)
Definition epub3 (s : st) : bool := match assoc (R "epub-version") (params s) with Some (50 :: _) => false | _ => true end.
Definition common_header (s : st) : str :=
  let v5 := match assoc (R "xhtml-version") (params s) with Some (52 :: _) => false | _ => true end in
  let lg := html_escape (lang s) in
  let e3 := epub s && epub3 s in
  let modern := e3 || (negb (epub s) && v5) in
  (if e3 then R "<?xml version=""1.0"" encoding=""utf-8""?>" ++ NLs else []) ++
  (if modern then R "<!DOCTYPE html>" ++ NLs
   else R "<!DOCTYPE html PUBLIC ""-//W3C//DTD XHTML 1.1//EN"" ""http://www.w3.org/TR/xhtml11/DTD/xhtml11.dtd"">" ++ NLs) ++
  R "<html xmlns=""http://www.w3.org/1999/xhtml"" " ++
  (if e3 then R "xmlns:epub=""http://www.idpf.org/2007/ops"" xml:lang=""" ++ lg ++ R """ " else []) ++ R "lang=""" ++ lg ++ R """>" ++ NLs ++ R "  <head>" ++ NLs ++
  (if e3 then R "    <meta charset=""utf-8"" />" ++ NLs
   else if negb (epub s) && v5 then R "    <meta charset=""utf-8"" />" ++ NLs ++ R "    <meta name=""viewport"" content=""width=device-width, initial-scale=1.0"" />" ++ NLs
   else R "    <meta http-equiv=""Content-type"" content=""text/html; charset=utf-8"" />" ++ NLs).
Definition doc_header (title : str) (s : st) : str :=
  common_header s ++
  (match title with [] => [] | _ => R "    <title>" ++ title ++ R "</title>" ++ NLs end) ++
  (if epub s then [] else match assoc (R "xhtml-favicon") (params s) with Some f => R "    <link rel=""shortcut icon"" type=""image/x-icon"" href=""" ++ html_escape f ++ R """ />" ++ NLs | None => [] end) ++
  (if epub s then (if has_key (R "epub-css") (params s) then R "    <link rel=""stylesheet"" href=""stylesheet.css"" />" ++ NLs else [])
   else match assoc (R "xhtml-css") (params s) with Some c => R "    <link rel=""stylesheet"" href=""" ++ html_escape c ++ R """ />" ++ NLs | None => [] end) ++
  R "  </head>" ++ NLs ++ R "  <body>" ++ NLs.
Definition doc_footer : str := R "  </body>" ++ NLs ++ R "</html>" ++ NLs.
Definition param (n : string) (s : st) : str := match assoc (runes n) (params s) with Some v => v | None => [] end.
Definition title_page (s : st) : st :=
  if negb (truthy (assoc (R "title-page") (params s))) then s else
  let one (p tag cls : string) (s : st) : st :=
    match param p s with
    | [] => err "warning:parameter title-page set to true value but no document metadata specified" s
    | v => wo (R "<" ++ runes tag ++ R " class=""" ++ runes cls ++ R """>" ++ v ++ R "</" ++ runes tag ++ R ">" ++ NLs) s
    end in
  one "document-date"%string "h3"%string "date"%string (one "document-author"%string "h2"%string "author"%string (one "document-title"%string "h1"%string "title"%string s)).

(* ---- Renderer methods ---- *)
Definition begin_desc_list (id : str) := w (R "<dl" ++ idattr id ++ R ">" ++ NLs).
Definition begin_desc_value := w (R "<dd>").
Definition begin_dialogue (s : st) := w (match assoc (R "dmark") (params s) with Some d => html_escape d | None => [8211] end) s.
Definition begin_display_block (tag id : str) (s : st) : st :=
  let '(open, pairs) :=
    match assoc tag (dtags s) with
    | Some d => (R "<" ++ (match dt_cmd d with [] => R "div" | c => c end) ++ R " class=""" ++ tag ++ R """", dt_pairs d)
    | None => (R "<div", [])
    end in
  w (open ++ pairs_attrs pairs ++ idattr id ++ R ">" ++ NLs) s.
Definition begin_enum_list (id : str) := w (R "<ol" ++ idattr id ++ R ">" ++ NLs).
Definition begin_item_list (id : str) := w (R "<ul" ++ idattr id ++ R ">" ++ NLs).
Definition begin_item := w (R "<li>").
Definition go_up (s : st) : str :=
  match param "xhtml-go-up" s with
  | [] => let l := lang s in
          if str_eqb l (R "de") || str_eqb l (R "en") || str_eqb l (R "fr") then R "Index"
          else if str_eqb l (R "eo") then R "Indekso" else if str_eqb l (R "es") then [205] ++ R "ndice" else [8593]
  | v => v
  end.
Definition file_change (title : str) (s : st) : st :=
  let s1 := if epub s then s else match navtext s with [] => s | n => (wo n s) <| navtext := [] |> end in
  let s2 := wo doc_footer s1 in
  let s2 := if custom_file_names s2 && (has_slash (cid s2) || negb (id_safe (cid s2))) then err "id contains a path separator and cannot be used as file name" s2 else s2 in
  let name := (if epub s2 then R "EPUB/" else []) ++ fprefix s2 ++ R "-" ++ chapname s2 ++ suffix s2 in
  let s3 := s2 <| files ::= fun l => l ++ [(curfile s2, flat (wout s2))] |> <| wout := [] |> <| curfile := name |> in
  let s4 := wo (doc_header title s3) s3 in
  if epub s4 then s4 else
  let navc := (pcount (toc s4) + ccount (toc s4))%nat in
  let prev := if Nat.ltb 1 navc then nth_error (lox_nav s4) (navc - 2) else None in
  let next := if Nat.ltb navc (List.length (lox_nav s4)) then nth_error (lox_nav s4) navc else None in
  let nav := R "    <div class=""topnav"">" ++ NLs ++ R "      <ul class=""topnav"">" ++ NLs ++
             (match prev with Some e => R "        <li><a href=""" ++ lx_ref e ++ R """>&lt;</a></li>" ++ NLs | None => R "        <li>&lt;</li>" ++ NLs end) ++
             R "        <li><a href=""index.html"">" ++ go_up s4 ++ R "</a></li>" ++ NLs ++
             (match next with Some e => R "        <li><a href=""" ++ lx_ref e ++ R """>&gt;</a></li>" ++ NLs | None => R "        <li>&gt;</li>" ++ NLs end) ++
             R "      </ul>" ++ NLs ++ R "    </div>" ++ NLs in
  wo nav (s4 <| navtext := nav |>).
Definition begin_header (m : str) (numbered : bool) (title : str) (s : st) : st :=
  let s0 := if multi s && (str_eqb m (R "Pt") || str_eqb m (R "Ch")) then file_change title s else s in
  match nth_error (lox_toc s0) (hcount (toc s0) - 1)%nat with
  | None => s0 <| panicked := Some (R "BeginHeader: index out of range") |>
  | Some e =>
      if Nat.eqb (hcount (toc s0)) 0%nat then s0 <| panicked := Some (R "BeginHeader: index -1") |> else
      w (R "<h" ++ level_str (toc s0) m ++ R " class=""" ++ m ++ R """ id=""" ++ get_id s0 e ++ R """>" ++
         (if numbered then lx_num e ++ R " " else [])) s0
  end.
Definition begin_markup_block (tag id : str) (s : st) : st :=
  match assoc tag (mtags s) with
  | None => w (R "<em" ++ idattr id ++ R ">") s
  | Some m => w (R "<" ++ mt_cmd m ++ R " class=""" ++ html_escape tag ++ R """" ++ pairs_attrs (mt_pairs m) ++ idattr id ++ R ">" ++ mt_begin m) s
  end.
Definition begin_paragraph := w (R "<p>").
Definition begin_table (t : tdata) (s : st) : st :=
  match td_title t with
  | [] => w (R "<table" ++ idattr (td_id t) ++ R ">" ++ NLs) s
  | _ => w (R "<div id=""tbl" ++ dec (ttit s) ++ R """ class=""table"">" ++ NLs ++ R "<table>" ++ NLs) s
  end.
Definition begin_table_cell := w (R "<td>").
Definition begin_table_row := w (R "<tr>" ++ NLs).
Definition begin_verse (title id : str) : st -> st :=
  match title with
  | [] => w (R "<div class=""verse""" ++ idattr id ++ R ">" ++ NLs)
  | _ => w (R "<div class=""verse"">" ++ NLs ++ R "<h4 id=""poem" ++ id ++ R """>" ++ title ++ R "</h4>" ++ NLs)
  end.
Definition begin_verse_line := w (R "<span class=""verse"">").
Definition cross_reference (i : idinfo) (punct : str) :=
  w (R "<a" ++ (if Nat.eqb (id_type i) 0%nat then [] else R " href=""" ++ id_ref i ++ R """") ++ R ">" ++ id_name i ++ R "</a>" ++ punct).
Definition desc_name (n : str) := w (R "<dt>" ++ n ++ R "</dt>" ++ NLs).
Definition end_desc_list := w (R "</dl>" ++ NLs).
Definition end_desc_value := w (R "</dd>" ++ NLs).
Definition end_display_block (tag : str) (s : st) : st :=
  match tag with
  | [] => w (R "</div>" ++ NLs) s
  | _ => let cmd := match assoc tag (dtags s) with Some d => (match dt_cmd d with [] => R "div" | c => c end) | None => R "div" end in
         w (R "</" ++ cmd ++ R ">" ++ NLs) s
  end.
Definition end_enum_list := w (R "</ol>" ++ NLs).
Definition end_item := w (R "</li>" ++ NLs).
Definition end_header (m : str) (s : st) := w (R "</h" ++ level_str (toc s) m ++ R ">" ++ NLs) s.
Definition end_item_list := w (R "</ul>" ++ NLs).
Definition end_markup_block (tag punct : str) (s : st) : st :=
  match assoc tag (mtags s) with
  | None => w (R "</em>" ++ punct) s
  | Some m => w (mt_end m ++ R "</" ++ mt_cmd m ++ R ">" ++ punct) s
  end.
Definition end_paragraph (b : pbreak) : st -> st :=
  match b with PForced => fun s => s | PItem => w (R "</p>") | _ => w (R "</p>" ++ NLs) end.
Definition end_stanza (s : st) := end_paragraph PNormal (w (R "</span>" ++ NLs) s).
Definition end_table (t : tdata) (s : st) : st :=
  let s1 := w (R "</table>" ++ NLs) s in
  match td_title t with [] => s1 | ti => w (R "<p class=""table-title"">" ++ ti ++ R "</p>" ++ NLs ++ R "</div>" ++ NLs) s1 end.
Definition end_table_cell := w (R "</td>" ++ NLs).
Definition end_table_row := w (R "</tr>" ++ NLs).
Definition end_verse := w (R "</div>" ++ NLs).
Definition end_verse_line := w (R "</span><br />" ++ NLs).
Definition process_link (l : str) (k : str -> st -> st) (s : st) : st :=
  match l with [] => k [] s | _ => with_url l (fun n => k (html_escape n)) s end.
Fixpoint base_name (l : str) (cur : str) : str :=
  match l with [] => rev cur | c :: r => if c =? 47 then base_name r [] else base_name r (c :: cur) end.
Definition img_src (image : str) (k : str -> st -> st) (s : st) : st :=
  if epub s then with_url (base_name image []) (fun n => k (R "images/" ++ html_escape n)) s
  else with_url image (fun n => k (html_escape n)) s.
Definition figure_image (image caption link alt : str) (s : st) : st :=
  img_src image (fun u => process_link link (fun lk0 s =>
  let lk := if epub s then [] else lk0 in
  let alt1 := match alt, caption with [], (_ :: _) => caption | _, _ => html_escape alt end in
  let img := R "<img src=""" ++ u ++ R """ alt=""" ++ alt1 ++ R """ />" in
  w (R "<div id=""fig" ++ dec (fig s) ++ R """ class=""figure"">" ++ NLs ++
     (match lk with [] => R "  " ++ img ++ NLs | _ => R "  <a href=""" ++ lk ++ R """>" ++ img ++ R "</a>" ++ NLs end) ++
     (match caption with [] => [] | _ => R "  <p class=""caption"">" ++ caption ++ R "</p>" ++ NLs end) ++
     R "</div>" ++ NLs) s)) s.
Definition inline_image (image link id punct alt : str) (s : st) : st :=
  img_src image (fun u => process_link link (fun lk0 s =>
  let lk := if epub s then [] else lk0 in
  let img := R "<img src=""" ++ u ++ R """ alt=""" ++ html_escape alt ++ R """" ++ idattr id ++ R " />" in
  w (match lk with [] => img ++ punct | _ => R "<a href=""" ++ lk ++ R """>" ++ img ++ R "</a>" ++ punct end) s)) s.
Definition lk_with_label (uri label punct : str) : st -> st :=
  with_url uri (fun u => w (R "<a href=""" ++ html_escape u ++ R """>" ++ label ++ R "</a>" ++ punct)).
Definition lk_without_label (uri punct : str) := lk_with_label uri (html_escape uri) punct.
Definition paragraph_title (t : str) := w (R "<p class=""paragraph""><strong class=""paragraph"">" ++ t ++ R "</strong>" ++ NLs).

(* ---- tables of contents ---- *)
Definition toc_entry (mf : bool) (e : lox) (nonum toc_mode : bool) (level : nat) : str :=
  let num := if nonum || (mf && str_eqb (firstn 5 (lx_ref e)) (R "index")) then [] else
             if toc_mode then (match lx_num e with [] => [] | n => n ++ R ". " end) else dec (lx_count e) ++ R ". " in
  spaces2 (S level) ++ R "<li><a href=""" ++ lx_ref e ++ R """>" ++ num ++ lx_title e ++ R "</a>" ++ NLs.

Record tw := mkTw { tw_level : nat; tw_prev : nat; tw_out : str; tw_stop : bool }.
Inductive dialect := DXhtml | DNcx | DNav.
Definition close_item (d : dialect) : str := match d with DNcx => R "</navPoint>" | _ => R "</li>" end.
Definition close_list (d : dialect) : str := match d with DXhtml => R "</ul>" | DNcx => [] | DNav => R "</ol>" end.
Definition close_lists (d : dialect) (from count : nat) : str :=      (* for j := from; j > from - count; j-- *)
  flat_map (fun k => spaces2 (from - k)%nat ++ close_list d ++ close_item d ++ NLs) (seq 0%nat count).
Fixpoint replace_hash (l : str) : str := match l with [] => [] | c :: r => (if c =? 35 then 45 else c) :: replace_hash r end.
Definition numdot (e : lox) : str := match lx_num e with [] => [] | n => n ++ R ". " end.
Definition entry_str (d : dialect) (mf : bool) (e : lox) (nonum : bool) (level : nat) : str :=
  match d with
  | DXhtml => toc_entry mf e nonum true level
  | DNcx => spaces2 (S level) ++ R "<navPoint id=""" ++ replace_hash (lx_ref e) ++ R """>" ++ NLs ++
            spaces2 (S (S level)) ++ R "<navLabel><text>" ++ numdot e ++ lx_title e ++ R "</text></navLabel>" ++ NLs ++
            spaces2 (S (S level)) ++ R "<content src=""" ++ lx_ref e ++ R """ />" ++ NLs
  | DNav => spaces2 (S level) ++ R "<li><a href=""" ++ lx_ref e ++ R """>" ++ numdot e ++ lx_title e ++ R "</a>" ++ NLs
  end.

(* writeTOC: None when there is no TOC information (a diagnostic is printed and nothing is written) *)
Definition toc_string (d : dialect) (opts : popts) (s : st) : option str * st :=
  let stack := lox_toc s in
  match stack with
  | [] => (None, err "warning:no TOC information found, skipping TOC generation" s)
  | _ =>
    let mini := flag "mini" opts in let summary := flag "summary" opts in let nonum := flag "nonum" opts in
    let navc := (pcount (toc s) + ccount (toc s))%nat in
    let '(start, mini_macro, bad) :=
      if mini && Nat.ltb 0%nat navc then
        match nth_error (lox_nav s) (navc - 1)%nat with
        | Some e => (lx_count e, lx_macro e, false)
        | None => (0%nat, R "Ch", true)
        end
      else (0%nat, R "Ch", false) in
    if bad then (None, s <| panicked := Some (R "writeTOC: nav index out of range") |>) else
    let doctitle := match assoc (R "document-title") (params s) with Some t => t | None => [] end in
    let '(head, s1) :=
      match d with
      | DXhtml =>
        let '(title, s1) :=
          match opt "title" opts with
          | Some t => render_text t s
          | None => if mini then render_text [] s else (doctitle, s)
          end in
        (R "<div class=""toc"">" ++ NLs ++
         (match title with [] => [] | _ => R "  <h2 id=""toc-title"" class=""toc-title"">" ++ title ++ R "</h2>" ++ NLs end) ++
         R "  <ul>" ++ NLs, s1)
      | DNcx => (R "<navMap>" ++ NLs ++ R "    <navPoint id=""titlepage"">" ++ NLs ++ R "      <navLabel><text>" ++ doctitle ++ R "</text></navLabel>" ++ NLs ++
                 R "      <content src=""index.xhtml"" />" ++ NLs ++ R "    </navPoint>" ++ NLs, s)
      | DNav => (R "<nav epub:type=""toc"" id=""navtoc"">" ++ NLs ++ R "  <ol>" ++ NLs ++
                 (match doctitle with [] => [] | _ => R "    <li><a href=""index.xhtml"" class=""toc-title"">" ++ doctitle ++ R "</a></li>" ++ NLs end), s)
      end in
    let step (a : tw) (e : lox) : tw :=
      if tw_stop a then a else
      let m := lx_macro e in
      if mini && (str_eqb m mini_macro || str_eqb m (R "Pt")) then mkTw (tw_level a) (tw_prev a) (tw_out a) true else
      let skip := summary && (if mini && str_eqb mini_macro (R "Ch") then negb (str_eqb m (R "Sh"))
                               else negb (str_eqb m (R "Pt")) && negb (str_eqb m (R "Ch"))) in
      if skip then a else
      let tl := match header_level (toc s1) m with Some n => n | None => 0%nat end in
      let a1 :=
        if Nat.eqb (tw_level a) 0%nat then mkTw 1%nat tl (tw_out a) false
        else if Nat.ltb (tw_prev a) tl then
          mkTw (S (tw_level a)) tl
               (tw_out a ++ match d with DXhtml => spaces2 (S (tw_level a)) ++ R "<ul>" ++ NLs | DNav => spaces2 (S (tw_level a)) ++ R "<ol>" ++ NLs | DNcx => [] end) false
        else if Nat.ltb tl (tw_prev a) then
          let k := Nat.min (tw_prev a - tl)%nat (tw_level a - 1)%nat in
          mkTw (tw_level a - k)%nat tl (tw_out a ++ spaces2 (S (tw_level a)) ++ close_item d ++ NLs ++ close_lists d (tw_level a) k) false
        else mkTw (tw_level a) tl (tw_out a ++ spaces2 (S (tw_level a)) ++ close_item d ++ NLs) false in
      mkTw (tw_level a1) (tw_prev a1) (tw_out a1 ++ entry_str d (multi s) e nonum (tw_level a1)) false in
    let a := fold_left step (skipn start stack) (mkTw 0%nat 1%nat [] false) in
    let tail := (if Nat.ltb 0%nat (tw_level a) then spaces2 (S (tw_level a)) ++ close_item d ++ NLs else []) ++
                close_lists d (tw_level a) (tw_level a - 1)%nat ++
                match d with DXhtml => R "  </ul>" ++ NLs ++ R "</div>" ++ NLs | DNcx => R "</navMap>" ++ NLs | DNav => R "  </ol>" ++ NLs ++ R "</nav>" ++ NLs end in
    (Some (head ++ tw_out a ++ tail), s1)
  end.
Definition write_toc (opts : popts) (s : st) : st :=
  match toc_string DXhtml opts s with (Some t, s1) => w t s1 | (None, s1) => s1 end.

Definition xhtml_lox (class : string) (entries : list lox) (s : st) : st :=
  match entries with
  | [] => err "warning:no LoX information found" s
  | _ => w (R "<div class=""" ++ runes class ++ R """>" ++ NLs ++ R "  <ul>" ++ NLs ++
            flat_map (fun e => toc_entry (multi s) e false false 1%nat) entries ++ R "  </ul>" ++ NLs ++ R "</div>" ++ NLs) s
  end.

Definition table_of_contents (opts : popts) (s : st) : st :=
  if flag "toc" opts then write_toc opts s
  else if flag "lot" opts then xhtml_lox "lot" (lox_lot s) s
  else if flag "lof" opts then xhtml_lox "lof" (lox_lof s) s
  else if flag "lop" opts then xhtml_lox "lop" (lox_lop s) s
  else s.

Definition begin_enum_item := begin_item.

(* ---- epub.go: files generated at Reset ---- *)
Definition ends_with (suf l : str) : bool := str_eqb (skipn (List.length l - List.length suf) l) suf && Nat.leb (List.length suf) (List.length l).
Definition media_type (n : str) : option str :=
  if ends_with (R ".png") n then Some (R "image/png") else if ends_with (R ".jpeg") n || ends_with (R ".jpg") n then Some (R "image/jpeg")
  else if ends_with (R ".gif") n then Some (R "image/gif") else if ends_with (R ".svg") n then Some (R "image/svg") else None.
Definition chap_entries (s : st) : list lox := filter (fun e => str_eqb (lx_macro e) (R "Pt") || str_eqb (lx_macro e) (R "Ch")) (lox_toc s).
Definition content_opf (title : str) (s : st) : str * st :=
  let e3 := epub3 s in
  let subj := param "epub-subject" s in
  let head :=
    R "<?xml version=""1.0"" encoding=""utf-8""?>" ++ NLs ++
    R "<package xmlns=""http://www.idpf.org/2007/opf"" version=""" ++ (if e3 then R "3.0" else R "2.0") ++ R """ unique-identifier=""epub-id-1"">" ++ NLs ++
    R "<metadata xmlns:dc=""http://purl.org/dc/elements/1.1/""" ++ NLs ++ R "  xmlns:dcterms=""http://purl.org/dc/terms/""" ++ NLs ++
    R "  xmlns:xsi=""http://www.w3.org/2001/XMLSchema-instance""" ++ NLs ++ R "  xmlns:opf=""http://www.idpf.org/2007/opf"">" ++ NLs ++
    R "<dc:identifier id=""epub-id-1"">" ++ param "epub-uuid" s ++ R "</dc:identifier>" ++ NLs ++
    R "<dc:language>" ++ html_escape (lang s) ++ R "</dc:language>" ++ NLs ++
    R "<dc:title id=""epub-title-1"">" ++ title ++ R "</dc:title>" ++ NLs ++
    (if e3 then R "<meta property=""dcterms:modified"">0001-01-01T01:01:01Z</meta>" ++ NLs else []) ++
    (match subj with [] => [] | _ => R "<dc:subject id=""epub-subject-1"">" ++ subj ++ R "</dc:subject>" ++ NLs end) ++
    (match param "document-author" s with [] => [] | a => R "<dc:creator id=""epub-creator-1"">" ++ a ++ R "</dc:creator>" ++ NLs end) ++
    R "</metadata>" ++ NLs ++ R "<manifest>" ++ NLs ++
    (if e3 then R "<item id=""nav""" ++ NLs ++ R "      href=""nav.xhtml""" ++ NLs ++ R "      properties=""nav""" ++ NLs ++ R "      media-type=""application/xhtml+xml"" />" ++ NLs else []) ++
    R "<item id=""epub2_ncx""" ++ NLs ++ R "      href=""toc.ncx""" ++ NLs ++ R "      media-type=""application/x-dtbncx+xml"" />" ++ NLs ++
    R "<item id=""index"" href=""index.xhtml"" media-type=""application/xhtml+xml"" />" ++ NLs ++
    flat_map (fun e => R "<item id=""" ++ get_id s e ++ R """ href=""" ++ lx_ref e ++ R """ media-type=""application/xhtml+xml"" />" ++ NLs) (chap_entries s) ++
    R "<item id=""css""" ++ NLs ++ R "      href=""stylesheet.css""" ++ NLs ++ R "      media-type=""text/css"" />" ++ NLs in
  let '(imgs, s1) := fold_left (fun '(acc, s) im =>
      match media_type im with
      | None => (acc, err "unknown image format" s)
      | Some mt => let b := base_name im [] in
                   (acc ++ R "<item id=""" ++ html_escape b ++ R """" ++ NLs ++ R "      href=""images/" ++ html_escape b ++ R """" ++ NLs ++ R "      media-type=""" ++ mt ++ R """ />" ++ NLs, s)
      end) (images s) ([], s) in
  (head ++ imgs ++ R "</manifest>" ++ NLs ++ R "<spine toc=""epub2_ncx"">" ++ NLs ++ R "<itemref idref=""index"" />" ++ NLs ++
   (if e3 then R "<itemref idref=""nav"" linear=""yes"" />" ++ NLs else []) ++
   flat_map (fun e => R "<itemref idref=""" ++ get_id s1 e ++ R """ />" ++ NLs) (chap_entries s1) ++
   R "</spine>" ++ NLs ++ R "</package>" ++ NLs, s1).
Definition container_xml : str :=
  R "<?xml version=""1.0"" encoding=""utf-8""?>" ++ NLs ++ R "<container version=""1.0"" xmlns=""urn:oasis:names:tc:opendocument:xmlns:container"">" ++ NLs ++
  R "<rootfiles>" ++ NLs ++ R "<rootfile full-path=""EPUB/content.opf"" media-type=""application/oebps-package+xml"" />" ++ NLs ++ R "</rootfiles>" ++ NLs ++ R "</container>" ++ NLs.
Definition nav_xhtml (title : str) (s : st) : str * st :=
  let '(t, s1) := toc_string DNav (mkPo [] [] []) s in
  (R "<?xml version=""1.0"" encoding=""utf-8""?>" ++ NLs ++ R "<!DOCTYPE html>" ++ NLs ++
   R "<html xmlns=""http://www.w3.org/1999/xhtml"" xml:lang=""" ++ html_escape (lang s) ++ R """" ++ NLs ++ R "      xmlns:epub=""http://www.idpf.org/2007/ops"">" ++ NLs ++
   R "<head>" ++ NLs ++ R "    <meta charset=""utf-8"" />" ++ NLs ++
   (match title with [] => [] | _ => R "    <title>" ++ title ++ R "</title>" ++ NLs end) ++
   R "    <link rel=""stylesheet"" type=""text/css"" href=""stylesheet.css"" />" ++ NLs ++ R "</head>" ++ NLs ++ R "<body>" ++ NLs ++ NLs ++
   (match t with Some x => x | None => [] end) ++ R "</body>" ++ NLs ++ R "</html>" ++ NLs, s1).
Definition toc_ncx (title : str) (s : st) : str * st :=
  let '(t, s1) := toc_string DNcx (mkPo [] [] []) s in
  (R "<?xml version=""1.0"" encoding=""utf-8""?>" ++ NLs ++ R "<ncx version=""2005-1"" xmlns=""http://www.daisy.org/z3986/2005/ncx/"">" ++ NLs ++ R "  <head>" ++ NLs ++
   R "    <meta name=""dtb:uid"" content=""" ++ param "epub-uuid" s ++ R """ />" ++ NLs ++
   R "    <meta name=""dtb:depth"" content=""2"" />" ++ NLs ++ R "    <meta name=""dtb:totalPageCount"" content=""0"" />" ++ NLs ++
   R "    <meta name=""dtb:maxPageNumber"" content=""0"" />" ++ NLs ++ R "    <meta name=""cover"" content=""cover-image"" />" ++ NLs ++ R "  </head>" ++ NLs ++
   (match title with [] => [] | _ => R "  <docTitle>" ++ NLs ++ R "    <text>" ++ title ++ R "</text>" ++ NLs ++ R "  </docTitle>" ++ NLs end) ++
   (match t with Some x => x | None => [] end) ++ R "</ncx>" ++ NLs, s1).
(* epubGen; image files are recorded by name only (their bytes are copied from the world) *)
Definition epub_gen (s : st) : st :=
  let s0 := if has_key (R "document-title") (params s) then s else err "EPUB requires document-title parameter to be set" s in
  let title := param "document-title" s0 in
  let add n c (s : st) := s <| files ::= fun l => l ++ [(runes n, c)] |> in
  let s1 := add "mimetype"%string (R "application/epub+zip") s0 in
  let s2 := fold_left (fun a im => if existsb (str_eqb im) (existing a)
                                   then (if existsb (fun f => str_eqb (fst f) (R "EPUB/images/" ++ base_name im [])) (files a) then a
                                         else a <| files ::= fun l => l ++ [(R "EPUB/images/" ++ base_name im [], [])] |>)
                                   else err "image copy: no such file" a) (images s1) s1 in
  let s3 := add "META-INF/container.xml"%string container_xml s2 in
  let '(opf, s4) := content_opf title s3 in
  let s5 := add "EPUB/content.opf"%string opf s4 in
  let s6 := if epub3 s5 then let '(n, s') := nav_xhtml title s5 in add "EPUB/nav.xhtml"%string n s' else s5 in
  let s7 := match param "epub-css" s6 with
            | [] => add "EPUB/stylesheet.css"%string [] s6
            | c => if existsb (str_eqb c) (existing s6) then add "EPUB/stylesheet.css"%string [] s6 else err "no such file" s6
            end in
  let '(ncx, s8) := toc_ncx title s7 in
  add "EPUB/toc.ncx"%string ncx s8.
Definition format_paragraph (s : st) (t : str) : str := t.
Definition mk_dtag (cmd : str) (pairs : list str) (s : st) : dtag * st := (mkDtag cmd pairs, s).
End X.
