(* Scratch prototype, Tier 3 slice: exporter/mom (fragment mode) *)
From Coq Require Import List NArith ZArith Bool Lia Arith String.
Import ListNotations.
Require Import St Text Common.
Open Scope N_scope.

Module M.
Definition target (id : str) : str := match id with [] => [] | _ => R ".PDF_TARGET """ ++ id ++ R """" ++ NLs end.
Definition dcmd (tag : str) (s : st) : str := match assoc tag (dtags s) with Some d => dt_cmd d | None => [] end.
Definition gen_ref (prefix id : str) : str := match prefix with [] => id | _ => prefix ++ R ":" ++ id end.
Definition header_reference (s : st) : str := gen_ref (R "s") (dec (hcount (toc s))).

Definition begin_desc_list (id : str) := w (target id ++ R ".LIST USER """"" ++ NLs).
Definition begin_desc_value (s : st) := s.
Definition begin_dialogue (s : st) := w (match assoc (R "dmark") (params s) with Some d => roff_escape d | None => [8211] end) s.
Definition begin_display_block (tag id : str) (s : st) : st :=
  let s1 := w (target id) s in
  match tag with [] => s1 | _ => match dcmd tag s1 with [] => s1 | c => w (R "." ++ c ++ NLs) s1 end end.
Definition begin_enum_list (id : str) := w (target id ++ R ".LIST" ++ NLs).
Definition begin_item_list (id : str) := w (target id ++ R ".LIST" ++ NLs).
Definition begin_item := w (R ".ITEM" ++ NLs).
Definition begin_enum_item := w (R ".ITEM" ++ NLs).
Definition begin_header (m : str) (numbered : bool) (s : st) : st :=
  let level := if str_eqb m (R "Ch") then 2%nat else if str_eqb m (R "Sh") then 3%nat else if str_eqb m (R "Ss") then 4%nat else 1%nat in
  w ((if Nat.ltb level 3 then R ".NEWPAGE" ++ NLs else []) ++ R ".HEADING " ++ dec level ++ R " NAMED s:" ++ dec (hcount (toc s)) ++ R " """) s.
Definition begin_markup_block (tag id : str) (s : st) : st :=
  let s1 := w (target id) s in
  match assoc tag (mtags s1) with
  | None => w (R "\f[I]") (s1 <| fontstack ::= fun l => l ++ [[]] |>)
  | Some m => w (R "\f[" ++ mt_cmd m ++ R "]" ++ mt_begin m) (s1 <| fontstack ::= fun l => l ++ [mt_cmd m] |>)
  end.
Definition begin_paragraph (s : st) := s.
Definition begin_table (t : tdata) (s : st) : st :=
  w ((match td_title t with [] => [] | _ => R ".FLOAT" ++ NLs end) ++ R ".TS" ++ NLs ++ R "allbox;" ++ NLs ++
     List.concat (List.repeat (R "l ") (td_cols t)) ++ R "." ++ NLs) s.
Definition begin_table_cell (s : st) := (if Nat.ltb 1 (tcell s) then w [9] s else s) <| incell := true |>.
Definition begin_table_row (s : st) := s.
Definition begin_verse (title id : str) (s : st) : st :=
  w ((match title with
      | [] => target id
      | _ => R ".HEADING 5 """ ++ title ++ R """" ++ NLs ++ R ".PDF_TARGET ""poem:" ++ id ++ R """" ++ NLs end) ++
     R ".QUOTE_SIZE -1" ++ NLs ++ R ".QUOTE_INDENT 1" ++ NLs ++ R ".QUOTE" ++ NLs) (s <| xverse := true |>).
Definition begin_verse_line (s : st) := s.
Definition cross_reference (i : idinfo) (punct : str) : st -> st :=
  if Nat.eqb (id_type i) 0 then w (id_name i ++ punct)
  else w (R ".PDF_LINK """ ++ id_ref i ++ R """ SUFFIX """ ++ punct ++ R """ """ ++ id_name i ++ R """").
Definition desc_name (n : str) := w (R ".ITEM" ++ NLs ++ R "\f[B]" ++ n ++ R "\f[R]" ++ NLs).
Definition end_desc_list := wo (R ".LIST OFF" ++ NLs ++ R ".PP" ++ NLs).
Definition end_desc_value := w NLs.
Definition end_display_block (tag : str) (s : st) : st :=
  match tag with [] => s | _ => match dcmd tag s with [] => s | c => w (R "." ++ c ++ R " OFF" ++ NLs) s end end.
Definition end_enum_list := wo (R ".LIST OFF" ++ NLs ++ R ".PP" ++ NLs).
Definition end_item := w NLs.
Definition end_header (m : str) (numbered : bool) (title : str) := w (R """" ++ NLs ++ R ".PP" ++ NLs).
Definition end_item_list := wo (R ".LIST OFF" ++ NLs ++ R ".PP" ++ NLs).
Definition end_markup_block (tag punct : str) (s : st) : st :=
  let s1 := match assoc tag (mtags s) with Some m => w (mt_end m) s | None => s end in
  let fs' := removelast (fontstack s1) in
  let cmd := match rev fs' with [] => R "R" | c :: _ => c end in
  let s2 := s1 <| fontstack := fs' |> in
  let s3 := if str_eqb (macro s2) (R "Em") && (str_eqb (prev s2) (R "Lk") || str_eqb (prev s2) (R "Sx")) then w NLs s2 else s2 in
  w (R "\f[" ++ cmd ++ R "]" ++ punct) s3.
Definition end_paragraph (b : pbreak) (s : st) : st :=
  match b with
  | PForced => if xverse s then w (NLs ++ NLs) s else s
  | PItem => s
  | PBlock => w (NLs ++ R ".PP" ++ NLs) s
  | PNormal => if xverse s then w (NLs ++ NLs) s else w (NLs ++ R ".PP" ++ NLs) s
  end.
Definition end_stanza := end_paragraph PNormal.
Definition end_table (t : tdata) (s : st) : st :=
  w (R ".TE" ++ NLs ++
     (match td_title t with
      | [] => target (td_id t)
      | ti => R ".CAPTION """ ++ ti ++ R """ TO_LIST" ++ [160] ++ R "TABLES" ++ NLs ++ R ".PDF_TARGET ""tbl:" ++ dec (ttit s) ++ R """" ++ NLs ++ R ".FLOAT OFF" ++ NLs end)) s.
Definition end_table_cell (s : st) := s <| incell := false |>.
Definition end_table_row := w NLs.
Definition end_verse (s : st) := w (R ".QUOTE OFF" ++ NLs) (s <| xverse := false |>).
Definition end_verse_line := w NLs.
Definition format_paragraph (s : st) (t : str) : str := if incell s then map (fun c => if c =? 10 then 32 else c) t else t.
Fixpoint ext_of (l : str) (cur : option str) : str :=     (* path.Ext on the last element: from the last dot, if no slash follows *)
  match l with
  | [] => match cur with Some e => e | None => [] end
  | c :: r => if c =? 46 then ext_of r (Some [c]) else if c =? 47 then ext_of r None
              else ext_of r (match cur with Some e => Some (e ++ [c]) | None => None end)
  end.
Definition bad_ext (image : str) : bool := let e := ext_of image None in negb (str_eqb e (R ".eps") || str_eqb e (R ".pdf")).
Definition figure_image (image caption link alt : str) (s : st) : st :=
  if negb (existsb (str_eqb image) (existing s)) then err "image not found" s else
  let s1 := if bad_ext image then err "expected .eps or .pdf" s else s in
  w (R ".FLOAT" ++ NLs ++ R ".PDF_IMAGE """ ++ roff_escape image ++ R """" ++ NLs ++ R ".CAPTION """ ++ caption ++ R """ TO_LIST" ++ [160] ++ R "FIGURES" ++ NLs ++
     R ".PDF_TARGET ""fig:" ++ dec (fig s1) ++ R """" ++ NLs ++ R ".FLOAT OFF" ++ NLs) s1.
Definition inline_image (image link id punct alt : str) (s : st) : st :=
  if contains_any brace_chars image then err "path argument and label should not contain braces" s else
  if negb (existsb (str_eqb image) (existing s)) then err "image not found" s else
  let s1 := if bad_ext image then err "expected .eps or .pdf" s else s in
  w (R ".PDF_IMAGE """ ++ roff_escape image ++ R """" ++ target id) s1.
Definition lk_with_label (uri label punct : str) : st -> st :=
  with_url uri (fun u => w (R ".PDF_WWW_LINK " ++ roff_escape u ++ R " SUFFIX """ ++ punct ++ R """ """ ++ roff_escape label ++ R """")).
Definition lk_without_label (uri punct : str) : st -> st :=
  with_url uri (fun u => w (R ".PDF_WWW_LINK " ++ roff_escape u ++ R " SUFFIX """ ++ punct ++ R """")).
Definition paragraph_title (t : str) := w (R ".HEADING 5 PARAHEAD """ ++ t ++ R """" ++ NLs).
Definition table_of_contents (o : popts) (s : st) : st := s.
End M.
