(* Scratch prototype, Tier 3 slice: macros.go part 2 — the rendering macros *)
From Coq Require Import List NArith Bool Lia Arith String.
Import ListNotations.
Require Import Exp Proc1.
Open Scope N_scope.

Definition PIM := list arg -> st -> str * st.          (* processInlineMacros, supplied by the block loop *)

Fixpoint hbl (t : str) (blank : bool) : bool :=
  match t with
  | [] => blank
  | c :: r => if c =? 10 then (if blank then true else hbl r true)
              else if blank && negb (is_space c) then hbl r false else hbl r blank
  end.
Definition has_blank_line (t : str) : bool := hbl t true.

Definition process_text (s : st) : st :=
  if negb (process s) then s else
  if asis s then let '(t, s1) := inlines_text (text s) s in s1 <| raw ::= fun r => r ++ t |> else
  let s1 := if negb (par s) then reopen_spanning ((begin_paragraph s) <| par := true |>)
            else if ws s then s <| buf ::= cons [10] |> else s in
  let '(t, s2) := render_text (text s1) s1 in
  let s3 := match t with [] => s2 | _ => if has_blank_line t then err "empty line" s2 else s2 end in
  s3 <| buf ::= cons t |> <| ws := true |>.

(* utils.go reservedID: the form of the anchors the xhtml exporter generates itself *)
Fixpoint strip_prefix (p x : str) : option str :=
  match p, x with
  | [], _ => Some x
  | a :: p', b :: x' => if a =? b then strip_prefix p' x' else None
  | _, [] => None
  end.
Definition reserved_id (id : str) : bool :=
  existsb (fun p => match strip_prefix p id with
                    | Some (c :: r) => forallb (fun d => existsb (N.eqb d) anchor_tail_chars) (c :: r)
                    | _ => false end) [R "s"; R "fig"; R "tbl"; R "poem"]
  || str_eqb id (R "toc-title").
Definition store_id (id : str) (i : idinfo) (s : st) : st :=
  let s1 := if has_key id (ids s) then let q := quiet s in (err "already used id" (s <| quiet := false |>)) <| quiet := q |>
            else if (match fmt s with FX => true | _ => false end) && reserved_id id
                 then let q := quiet s in (err "id has the form of a generated anchor" (s <| quiet := false |>)) <| quiet := q |>
            else s in
  s1 <| ids ::= assoc_set id i |>.

Definition valid_formats : list string := ["markdown"; "xhtml"; "latex"; "epub"; "mom"]%string.
Definition valid_format (f : str) : bool := existsb (fun v => str_eqb f (runes v)) valid_formats.
Definition check_formats (fs : list str) (s : st) : st :=
  fold_left (fun a f => if valid_format f then a else err "invalid argument to -f option" a) fs s.
Definition not_export_format (fs : list str) (s : st) : bool := negb (existsb (str_eqb (format s)) fs).
Definition formats_of (a : arg) (s : st) : list str * st := let '(t, s1) := inlines_text a s in (split_on 44 t [], s1).

Definition opt_render (n : string) (o : popts) (s : st) : str * st :=
  match opt n o with Some t => render_text t s | None => ([], s) end.
Definition opt_text (n : string) (o : popts) (s : st) : str * st :=
  match opt n o with Some t => inlines_text t s | None => ([], s) end.
Definition useless (o : popts) (s : st) : st := match po_args o with [] => s | _ => err "useless arguments" s end.

(* macroBd *)
Definition macro_bd (s : st) : st :=
  if scope_verse s then err "Bd disallowed within verse" s else
  let '(o, s1) := parse_opts specOptBd (args s) s in
  let '(id, s2) := opt_render "id" o s1 in
  if negb (process s2) then
    match id with [] => s2 | _ => store_id id (mkId (gen_ref s2 [] id) [] 2) s2 end
  else
  let s3 := if contains_space id then err "id identifier should not contain spaces" s2 else s2 in
  let s4 := close_unclosed_inline (useless o s3) in
  let '(tag, s5) := opt_render "t" o s4 in
  let pb := match dtag_cmd tag s5 with [] => PNormal | _ => PBlock end in
  let s6 := push_block "Bd" tag id (flag "r" o) (end_par pb s5) in
  let s7 := match tag with [] => s6 | _ => if has_key tag (dtags s6) then s6 else err "invalid tag" s6 end in
  begin_display_block tag id s7.

(* macroBf; macroEf and macroFt apply filters, which may start a process: they are in Ctl.v *)
Definition has_filter (tag : str) (s : st) : bool := str_eqb tag (R "escape") || has_key tag (filters s).
Definition macro_bf (s : st) : st :=
  if negb (process s) then s else
  let '(o, s1) := parse_opts specOptBf (args s) s in
  let s2 := useless o s1 in
  let inuser := match cloc s2 with Some _ => true | None => false end in
  let mk ign tag s := s <| bf := Some (mkBf tag ign inuser (line s)) |> <| asis := true |> in
  match opt "f" o, opt "t" o with
  | None, None => mk true [] (err "one of -f option or -t option at least required" (s2 <| asis := true |>))
  | of, ot =>
    let '(tag, s3) := match ot with Some t => inlines_text t s2 | None => ([], s2) end in
    let bad_tag := match ot with Some _ => negb (has_filter tag s3) | None => false end in
    if bad_tag then mk true tag (err "undefined filter tag" s3) else
    match of with
    | Some f =>
        let '(fs, s4) := formats_of f s3 in
        let s5 := check_formats fs s4 in
        if not_export_format fs s5 then (mk true tag s5) <| elided := true |>
        else let s6 := mk false tag s5 in if par s6 then (begin_phrasing (flag "ns" o) s6) <| ws := false |> else s6
    | None => let s6 := mk false tag s3 in if par s6 then (begin_phrasing (flag "ns" o) s6) <| ws := false |> else s6
    end
  end.
Definition lox_entry (class : string) (e : lox) (id : str) (s : st) : st :=
  let e1 := mkLox (lx_count e) (lx_macro e) (lx_nonum e) (lx_num e) (gen_ref s (lx_prefix e) id) (lx_prefix e) (lx_title e) (lx_id e) in
  let s1 := if String.eqb class "lof" then s <| lox_lof ::= fun l => l ++ [e1] |>
            else if String.eqb class "lot" then s <| lox_lot ::= fun l => l ++ [e1] |>
            else s <| lox_lop ::= fun l => l ++ [e1] |> in
  match lx_id e with
  | [] => s1
  | i => store_id i (mkId (lx_ref e1) (lx_title e) (if String.eqb class "lof" then 4 else if String.eqb class "lot" then 7 else 6)) s1
  end.

Section WithPim.
Variable pim : PIM.

Definition bl_tag (o : popts) (s : st) : str * st :=
  match opt "t" o with Some t => inlines_text t s | None => (R "item", s) end.
Definition store_list_id (o : popts) (s : st) : str * st :=
  match opt "id" o with
  | Some t => let '(id, s1) := render_text t s in (id, store_id id (mkId (gen_ref s1 [] id) [] 8) s1)
  | None => ([], s)
  end.

Definition macro_bl_infos (s : st) : st :=
  let '(o, s1) := parse_opts specOptBl (args s) s in
  let '(tag, s2) := bl_tag o s1 in
  if str_eqb tag (R "item") || str_eqb tag (R "enum") || str_eqb tag (R "desc") then snd (store_list_id o s2)
  else if str_eqb tag (R "verse") then
    let s3 := s2 <| vused := true |> in
    let '(title, s4) := pim (po_args o) s3 in
    match title with
    | [] => snd (store_list_id o s4)
    | _ => let s5 := s4 <| vcount ::= S |> in
           let '(idt, s6) := opt_text "id" o s5 in
           lox_entry "lop" (mkLox (vcount s6) [] false [] [] (R "poem") title idt) (dec (vcount s6)) s6
    end
  else if str_eqb tag (R "table") then
    let s3 := s2 <| tscope := true |> in
    let '(title, s4) := pim (po_args o) s3 in
    match title with
    | [] => match opt "id" o with
            | Some _ => let '(id, s5) := store_list_id o s4 in s5 <| tid := id |>
            | None => s4 end
    | _ => let s5 := s4 <| ttitle := title |> <| ttit ::= S |> in
           let '(idt, s6) := opt_text "id" o s5 in
           lox_entry "lot" (mkLox (ttit s6) [] false [] [] (R "tbl") title idt) (dec (ttit s6)) s6
    end
  else s2.

Definition macro_bl_process (s : st) : st :=
  let '(o, s1) := parse_opts specOptBl (args s) s in
  let '(tag0, s2) := bl_tag o s1 in
  let known := existsb (str_eqb tag0) [R "item"; R "enum"; R "desc"; R "verse"; R "table"] in
  let '(tag, s3) := if known then (tag0, s2) else (R "item", err "invalid -t option argument" s2) in
  let simple := str_eqb tag (R "item") || str_eqb tag (R "enum") || str_eqb tag (R "desc") in
  let s4 := if simple then useless o s3 else s3 in
  let s5 := close_unclosed_inline s4 in
  let nested_tag := match last_scope "Bl" (sblock s5) with Some sc => sc_tag sc | None => [] end in
  if negb (str_eqb nested_tag []) && negb (str_eqb nested_tag (R "item")) && negb (str_eqb nested_tag (R "enum"))
  then err "nested list of invalid type" s5 else
  let s6 := push_block "Bl" tag [] false (end_par PBlock s5) in
  let '(id, s7) := opt_render "id" o s6 in
  if str_eqb tag (R "verse") then
    let '(title, s8) := pim (po_args o) s7 in
    match title with
    | [] => begin_verse title id s8
    | _ => let s9 := s8 <| vcount ::= S |> in begin_verse title (dec (vcount s9)) s9
    end
  else if str_eqb tag (R "desc") then begin_desc_list id s7
  else if str_eqb tag (R "item") then begin_item_list id s7
  else if str_eqb tag (R "enum") then begin_enum_list id s7
  else
    match nth_error (tinfo s7) (tcount s7) with
    | None => begin_table (mkTd [] 0%nat []) s7
    | Some ti =>
        let s8 := match td_title ti with [] => s7 | _ => s7 <| ttit ::= S |> <| ttitscope := true |> end in
        begin_table ti s8
    end.
Definition macro_bl (s : st) : st :=
  if scope_verse s then err "Bl disallowed within verse" s
  else if process s then macro_bl_process s else macro_bl_infos s.

Definition macro_bm (s : st) : st :=
  let '(o, s1) := parse_opts specOptBm (args s) s in
  let '(id, s2) := opt_render "id" o s1 in
  if negb (process s2) then match id with [] => s2 | _ => store_id id (mkId (gen_ref s2 [] id) [] 1) s2 end else
  let s3 := (begin_phrasing (flag "ns" o) s2) <| ws := false |> in
  let '(tag, s4) := match opt "t" o with
                    | Some t => let '(tg, s') := inlines_text t s3 in (tg, if has_key tg (mtags s') then s' else err "invalid tag argument to -t option" s')
                    | None => ([], s3) end in
  let s5 := begin_markup_block tag id (push_inline tag id (flag "r" o) s4) in
  match po_args o with
  | [] => s5
  | a => if negb (inl s5) then err "useless arguments" s5 else let '(t, s') := render_args a s5 in w t s'
  end.

Definition macro_d (s : st) : st :=
  if negb (process s) then s else
  let '(o, s1) := parse_opts specOptNone (args s) s in
  let s2 := useless o s1 in
  let s3 := if par s2 then
              let s' := process_paragraph (close_spanning s2) in
              if scope_verse s' && verse s' then end_stanza s' else end_paragraph PNormal s'
            else s2 in
  (begin_dialogue (reopen_spanning ((begin_paragraph s3) <| par := true |>))) <| ws := false |> <| verse := false |>.

Definition macro_im (s : st) : st :=
  let '(o, s1) := parse_opts specOptIm (args s) s in
  if process s1 then
    match po_args o with
    | [] => err "arguments required" s1
    | a0 =>
      let '(a1, punct, s2) := if Nat.ltb 1 (List.length a0) then get_close_punct a0 s1 else (a0, [], s1) in
      let '(link, s3) := opt_text "link" o s2 in
      let '(alt, s4) := opt_text "alt" o s3 in
      let '(a2, s5) := if Nat.ltb 2 (List.length a1) then (firstn 2 a1, err "too many arguments" s4) else (a1, s4) in
      match a2 with
      | [] => err "requires at least one argument" s5
      | [im] =>
          let s6 := (begin_phrasing (flag "ns" o) s5) <| ws := true |> in
          let '(image, s7) := inlines_text im s6 in
          let '(id, s8) := opt_render "id" o s7 in
          inline_image image link id punct alt s8
      | im :: cap :: _ =>
          let s6 := end_par PNormal (close_unclosed_inline s5) in
          let '(image, s7) := inlines_text im s6 in
          let '(caption, s8) := render_text cap s7 in
          figure_image image caption link alt (s8 <| fig ::= S |>)
      end
    end
  else
    match po_args o with
    | [] => s1
    | a0 =>
      let '(a1, _, s2) := if Nat.ltb 1 (List.length a0) then get_close_punct a0 s1 else (a0, [], s1) in
      match a1 with
      | [] => s2
      | [im] =>
          let '(image, s3) := inlines_text im s2 in
          let s4 := s3 <| images ::= fun l => l ++ [image] |> in
          match opt "id" o with
          | Some t => let '(id, s5) := render_text t s4 in store_id id (mkId (gen_ref s5 [] id) [] 3) s5
          | None => s4 end
      | im :: cap :: _ =>
          let '(image, s3) := inlines_text im s2 in
          let s4 := s3 <| images ::= fun l => l ++ [image] |> in
          let '(label, s5) := render_text cap s4 in
          let s6 := s5 <| fig ::= S |> in
          let '(idt, s7) := opt_text "id" o s6 in
          lox_entry "lof" (mkLox (fig s7) [] false [] [] (R "fig") label idt) (dec (fig s7)) s7
      end
    end.

(* macroIt *)
Definition push_it (s : st) : st := if scope_it s then s else push_block "It" [] [] false s.
Definition it_desc (a : list arg) (s : st) : st :=
  let s1 := close_unclosed_blocks "It" s in
  let s2 := if scope_it s1 then end_desc_value (end_par PItem s1) else if par s1 then err "previous text outside of It scope" s1 else s1 in
  let s3 := match a with [] => err "description name required" s2 | _ => s2 end in
  let '(name, s4) := pim a s3 in
  push_it ((begin_desc_value (desc_name name (s4 <| ws := false |>))) <| par := false |>).
Definition it_itemenum (enum : bool) (a : list arg) (s : st) : st :=
  let s1 := close_unclosed_blocks "It" s in
  let s2 := if scope_it s1 then end_item (end_par PItem s1) else if par s1 then err "previous text outside of It scope" s1 else s1 in
  let s3 := ((if enum then begin_enum_item else begin_item) s2) <| par := false |> <| ws := false |> in
  let s4 := match a with
            | [] => s3
            | _ => let s' := (begin_paragraph s3) <| par := true |> in
                   let '(t, s'') := pim a s' in (w t s'') <| ws := true |>
            end in
  push_it s4.
Definition it_table (a : list arg) (s : st) : st :=
  let s1 := close_unclosed_blocks "It" s in
  let s2 := if scope_it s1 then end_table_row (end_table_cell (end_par PItem s1)) else if par s1 then err "previous text outside of It scope" s1 else s1 in
  let s3 := if Nat.eqb (tcols s2) 0 then s2 <| tcols := tcell s2 |> else s2 in
  let s4 := if Nat.ltb (tcell s3) (tcols s3) then err "not enough cells in previous row" s3 else s3 in
  let s5 := (begin_table_cell (begin_table_row (s4 <| tcell := 1%nat |>))) <| par := false |> in
  let s6 := match a with [] => s5 | _ => let '(t, s') := pim a s5 in (w t s') <| ws := true |> end in
  push_it s6.
Definition it_verse (a : list arg) (s : st) : st :=
  let s1 := if negb (par s) then reopen_spanning ((begin_verse_line (begin_paragraph s)) <| par := true |>)
            else if negb (verse s) then begin_verse_line (err "found verse text outside of It scope" s)
            else reopen_spanning (begin_verse_line (end_verse_line (close_spanning s))) in
  let s2 := match a with [] => s1 | _ => let '(t, s') := pim a s1 in (w t s') <| ws := true |> end in
  s2 <| verse := true |>.
Definition macro_it (s : st) : st :=
  if negb (process s) then
    (if tscope s then (if Nat.eqb (tcols s) 0 then s <| tcols := tcell s |> else s) <| tcell := 1%nat |> else s)
  else
  let '(o, s1) := parse_opts specOptNone (args s) s in
  match last_scope "Bl" (sblock s1) with
  | None => err "outside Bl macro scope" s1
  | Some sc =>
    let s2 := s1 <| ws := false |> in
    let tag := sc_tag sc in
    let prep s := close_unclosed_blocks "It" (close_unclosed_inline s) in
    if str_eqb tag (R "desc") then it_desc (po_args o) (prep s2)
    else if str_eqb tag (R "item") || str_eqb tag (R "enum") then it_itemenum (str_eqb tag (R "enum")) (po_args o) (prep s2)
    else if str_eqb tag (R "table") then it_table (po_args o) (prep s2)
    else if str_eqb tag (R "verse") then it_verse (po_args o) s2
    else s2
  end.

Definition macro_lk (s : st) : st :=
  if negb (process s) then s else
  let '(o, s1) := parse_opts specOptLk (args s) s in
  let '(a, punct, s2) := if Nat.ltb 1 (List.length (po_args o)) then get_close_punct (po_args o) s1 else (po_args o, [], s1) in
  match a with
  | [] => err "argument required" s2
  | u :: rest =>
    let s3 := (begin_phrasing (flag "ns" o) s2) <| ws := true |> in
    let '(url, s4) := inlines_text u s3 in
    match rest with
    | [] => lk_without_label url punct s4
    | _ => let '(label, s5) := pim rest s4 in lk_with_label url label punct s5
    end
  end.

Definition macro_p (s : st) : st :=
  if negb (process s) then s else
  let '(o, s1) := parse_opts specOptNone (args s) s in
  let s2 := if par s1 then
              let s' := process_paragraph (close_spanning s1) in
              if scope_verse s' && verse s' then end_stanza s' else end_paragraph PNormal s'
            else (end_paragraph PForced s1) <| par := false |> in
  let s3 := match po_args o with
            | [] => s2
            | a => let '(title, s') := pim a (s2 <| par := true |>) in reopen_spanning (paragraph_title title s')
            end in
  s3 <| ws := false |> <| verse := false |>.

Definition macro_sm (s : st) : st :=
  let '(o, s1) := parse_opts specOptSm (args s) s in
  let '(id, s2) := opt_render "id" o s1 in
  if negb (process s2) then match id with [] => s2 | _ => store_id id (mkId (gen_ref s2 [] id) [] 1) s2 end else
  match po_args o with
  | [] => err "arguments required" s2
  | a0 =>
    let '(a, punct, s3) := if Nat.ltb 1 (List.length a0) then get_close_punct a0 s2 else (a0, [], s2) in
    let s4 := begin_phrasing (flag "ns" o) s3 in
    let '(tag, s5) := match opt "t" o with
                      | Some t => let '(tg, s') := inlines_text t s4 in (tg, if has_key tg (mtags s') then s' else err "invalid tag argument to -t option" s')
                      | None => ([], s4) end in
    let s6 := begin_markup_block tag id s5 in
    let '(t, s7) := render_args a s6 in
    (end_markup_block tag punct (w t s7)) <| ws := true |>
  end.

Definition macro_sx (s : st) : st :=
  if negb (process s) then s else
  let '(o, s1) := parse_opts specOptSx (args s) s in
  let '(a, punct, s2) := if Nat.ltb 1 (List.length (po_args o)) then get_close_punct (po_args o) s1 else (po_args o, [], s1) in
  match a with
  | [] => err "arguments required" s2
  | i :: rest =>
    let '(id, s3) := inlines_text i s2 in
    let '(info, s4) := match assoc id (ids s3) with Some x => (x, s3) | None => (mkId [] [] 0, err "reference to unknown id" s3) end in
    let s5 := (begin_phrasing (flag "ns" o) s4) <| ws := true |> in
    let '(name, s6) := match rest with
                       | [] => match id_name info with [] => render_text i s5 | n => (n, s5) end
                       | _ => pim rest s5 end in
    cross_reference (mkId (id_ref info) name (id_type info)) punct s6
  end.

Definition macro_ta (s : st) : st :=
  if negb (process s) then s <| tcell ::= S |> else
  let '(o, s1) := parse_opts specOptNone (args s) s in
  let in_table := match last_scope "Bl" (sblock s1) with Some sc => str_eqb (sc_tag sc) (R "table") | None => false end in
  if negb in_table then err "outside Bl -t table macro scope" s1 else
  let s2 := close_unclosed_blocks "It" (close_unclosed_inline s1) in
  if negb (scope_it s2) then err "there are no rows" s2 else
  match nth_error (sblock s2) (List.length (sblock s2) - 2) with
  | None => set_panic "macroTaProcess: scopes[len-2]" s2
  | Some sc =>
    if Nat.ltb (List.length (sblock s2)) 2 then set_panic "macroTaProcess: scopes[len-2]" s2 else
    if negb (str_eqb (sc_tag sc) (R "table")) then err "not a table list" s2 else
    let s3 := (begin_table_cell ((end_table_cell (end_par PItem (close_unclosed_inline s2))) <| tcell ::= S |>)) <| par := false |> in
    match po_args o with
    | [] => s3 <| ws := false |>
    | a => let s4 := (begin_paragraph s3) <| par := true |> in
           let '(t, s5) := pim a s4 in (w t s5) <| ws := true |>
    end
  end.

Definition macro_tc (s : st) : st :=
  if negb (process s) then s else
  let s1 := (match fmt s with FX => fun x => x | _ => close_unclosed_block end) (close_unclosed_inline s) in
  let '(o, s2) := parse_opts specOptTc (args s1) s1 in
  let s3 := end_par PNormal (useless o s2) in
  let n := List.length (filter (fun f => flag f o) ["toc"%string; "lof"%string; "lot"%string; "lop"%string]) in
  let o1 := if Nat.eqb n 0 then mkPo (po_opts o) (R "toc" :: po_flags o) (po_args o) else o in
  if Nat.ltb 1 n then err "only one of the -toc, -lof and -lot options should bet set" s3
  else table_of_contents o1 s3.
End WithPim.
