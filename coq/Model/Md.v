(* Scratch prototype, Tier 3 slice: exporter/markdown *)
From Coq Require Import List NArith ZArith Bool Lia Arith String.
Import ListNotations.
Require Import St Text Common.
Require Reflow.
Open Scope N_scope.

Module K.
Definition gen_ref (prefix id : str) : str := [].
Definition header_reference (s : st) : str := [].
Definition spaces (n : Z) : str := List.repeat 32 (Z.to_nat n).

Definition begin_desc_list (id : str) (s : st) := s.
Definition begin_desc_value (s : st) := w (R "  ~ ") (s <| nesting := 3%Z |>).
Definition begin_dialogue := w [8212].
Definition begin_display_block (tag id : str) := w NLs.
Definition begin_enum_list (id : str) (s : st) := (if Z.ltb 0 (nesting s) then w NLs s else s) <| nesting ::= fun n => (n + 3)%Z |>.
Definition begin_item_list (id : str) (s : st) := (if Z.ltb 0 (nesting s) then w NLs s else s) <| nesting ::= fun n => (n + 2)%Z |>.
(* Go's level: ours - 1 *)
Definition glevel (s : st) (m : str) : Z := match header_level (toc s) m with Some n => (Z.of_nat n - 1)%Z | None => (-2)%Z end.
Definition begin_header (m : str) (numbered : bool) (s : st) : st :=
  let l := glevel s m in if Z.eqb l 3 then w (R "### ") s else if Z.eqb l 4 then w (R "#### ") s else s.
Definition begin_item (s : st) : st :=
  let n := nesting s in
  let item := if Z.eqb (Z.rem n 6) 0 then R "* " else if Z.eqb (Z.rem n 4) 0 then R "+ " else R "- " in
  let s1 := if Z.leb 2 n then w (spaces (n - 2)) s else err "unexpected nesting" s in
  w item s1.
Definition begin_enum_item (s : st) : st :=
  let n := nesting s in
  let s1 := if Z.leb 3 n then w (spaces (n - 3)) s else err "unexpected nesting" s in
  w (R "1. ") s1.
Definition begin_markup_block (tag id : str) (s : st) : st :=
  match assoc tag (mtags s) with None => w (R "*") s | Some m => w (mt_cmd m ++ mt_begin m) s end.
Definition begin_paragraph (s : st) := s.
Definition begin_table (t : tdata) := w NLs.
Definition begin_table_cell := w [9].
Definition begin_table_row (s : st) := s.
Definition begin_verse (title id : str) (s : st) := w (R "##### " ++ title ++ NLs ++ NLs) (s <| xverse := true |>).
Definition begin_verse_line (s : st) := s.
Definition cross_reference (i : idinfo) (punct : str) := w (id_name i ++ punct).
Definition desc_name (n : str) := w (n ++ NLs).
Definition end_desc_list := w NLs.
Definition end_desc_value (s : st) := w NLs (s <| nesting := 0%Z |>).
Definition end_display_block (tag : str) := w NLs.
Definition end_list (k : Z) (s : st) : st :=
  let s1 := (w NLs s) <| nesting ::= fun n => (n - k)%Z |> in
  if Z.eqb (nesting s1) 0 then w (R "<!-- -->" ++ NLs ++ NLs) s1 else s1.
Definition end_enum_list := end_list 3.
Definition end_item_list := end_list 2.
Definition end_item := w NLs.
Definition end_header (m : str) (numbered : bool) (title : str) (s : st) : st :=
  let l := glevel s m in
  let uc := if Z.eqb l 1 then [61] else if Z.eqb l 2 then [45] else [] in
  w (NLs ++ (if Z.leb l 2 then List.concat (List.repeat uc (List.length title)) ++ NLs else []) ++ NLs) s.
Definition end_markup_block (tag punct : str) (s : st) : st :=
  match assoc tag (mtags s) with None => w (R "*" ++ punct) s | Some m => w (mt_end m ++ mt_cmd m ++ punct) s end.
Definition end_paragraph (b : pbreak) : st -> st :=
  match b with PForced | PItem => fun s => s | _ => w (NLs ++ NLs) end.
Definition end_stanza := end_paragraph PNormal.
Definition end_table (t : tdata) := w NLs.
Definition end_table_cell (s : st) := s.
Definition end_table_row := w NLs.
Definition end_verse (s : st) := w NLs (s <| xverse := false |>).
Definition end_verse_line := w (R "\" ++ NLs).
Definition format_paragraph (s : st) (t : str) : str :=
  if xverse s then t else Reflow.reflow is_space (Z.to_nat (if Z.ltb 0 (nesting s) then nesting s else 0%Z)) t.
Definition figure_image (image caption link alt : str) := w (R "![" ++ caption ++ R "](" ++ image ++ R ")").
Definition inline_image (image link id punct alt : str) := w (R "![" ++ image ++ R "](" ++ image ++ R ")" ++ punct).
Definition lk_with_label (uri label punct : str) := w (R "[" ++ label ++ R "](" ++ uri ++ R ")" ++ punct).
Definition lk_without_label (uri punct : str) := w (R "<" ++ uri ++ R ">" ++ punct).
Definition paragraph_title (t : str) := w (R "**" ++ t ++ R "** ").
Definition table_of_contents (o : popts) (s : st) : st := s.
End K.
