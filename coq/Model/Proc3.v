(* Scratch prototype, Tier 3 slice: headers, X, control macros, user macros, the block loop, two passes *)
From Coq Require Import List NArith ZArith Bool Lia Arith String.
Import ListNotations.
Require Import Exp Proc1 Proc2 Xhtml.
Open Scope N_scope.

Section WithPim.
Variable pim : PIM.

Definition macro_header (s : st) : st :=
  let '(o, s1) := parse_opts specOptHeader (args s) s in
  let m := macro s1 in
  let nonum := flag "nonum" o in
  match po_args o with
  | [] => if process s1 then err "arguments required" s1 else s1
  | a =>
    if process s1 then
      let s2 := end_par PNormal (close_unclosed_block (close_unclosed_inline s1)) in
      let s3 := s2 <| toc ::= update_headers m nonum |> in
      let '(title, s4) := pim a s3 in
      let '(idx, s5) := opt_text "id" o s4 in
      let s6 := s5 <| cidx := idx |> in
      let s7 := if str_eqb m (R "Ch") || str_eqb m (R "Pt") then s6 <| cid := idx |> else s6 in
      let s8 := w title (begin_header m (negb nonum) title s7) in
      end_header m (negb nonum) title (close_unclosed_inline s8)
    else
      let s2 := s1 <| toc ::= update_headers m nonum |> in
      let s3 := if str_eqb m (R "Pt") then s2 <| toc ::= fun t => t <| hasPart := true |> |>
                else if str_eqb m (R "Ch") then s2 <| toc ::= fun t => t <| hasChapter := true |> |> else s2 in
      let '(id, s4) := opt_text "id" o s3 in
      let s5 := s4 <| cidx := id |> in
      let s6 := if str_eqb m (R "Ch") || str_eqb m (R "Pt") then s5 <| cid := id |> else s5 in
      let s6 := if (match fmt s6 with FX => true | _ => false end) && X.custom_ids s6 && negb (X.id_safe (cidx s6))
                then err "id contains a markup character and cannot be used as custom id" s6 else s6 in
      let ref := header_reference s6 in
      let num := header_num (toc s6) m nonum in
      let s7 := match id with [] => s6 | _ => store_id id (mkId ref num 5) s6 end in
      let '(title, s8) := pim a s7 in
      let e := mkLox (hcount (toc s8)) m nonum num ref (R "s") title id in
      let s9 := s8 <| lox_toc ::= fun l => l ++ [e] |> in
      if str_eqb m (R "Pt") || str_eqb m (R "Ch") then s9 <| lox_nav ::= fun l => l ++ [e] |> else s9
  end.

(* readPairs *)
Definition read_pairs (t : str) : option (list str) :=
  match t with
  | [] => None
  | c :: r => let l := split_on c r [] in if Nat.even (List.length l) then Some l else None
  end.
Fixpoint check_pairs (n : nat) (p : list str) (s : st) : st :=
  match p with
  | k :: _ :: r =>
      let s1 := match k with [] => err "in -a option: key is empty" s | _ => s end in
      let s2 := if contains_any key_bad_chars k
                   || (match k with c :: _ => existsb (N.eqb c) key_bad_first | [] => false end)
                then err "in -a option: key contains invalid characters" s1 else s1 in
      let s3 := fold_left (fun a c => if is_space c then err "in -a option: key contains space" a else a) k s2 in
      check_pairs (S n) r s3
  | _ => s
  end.
Definition opt_pairs (o : popts) (s : st) : list str * st :=
  match opt "a" o with
  | None => ([], s)
  | Some t => let '(x, s1) := inlines_text t s in
              match read_pairs x with
              | Some p => (p, check_pairs 1 p s1)
              | None => ([], err "invalid -a argument (missing separator?)" s1)
              end
  end.

Definition x_common_ft (o : popts) (s : st) : option str * st :=      (* -f (required) and -t handling shared by dtag/mtag; None = stop *)
  match opt "f" o with
  | None => (None, err "-f option required" s)
  | Some f =>
    let '(fs, s1) := formats_of f s in
    let s2 := check_formats fs s1 in
    if not_export_format fs s2 then (None, s2) else
    match opt "t" o with
    | None => (None, err "-t option required" s2)
    | Some t => let '(tag, s3) := inlines_text t s2 in
                match tag with [] => (None, err "tag option argument cannot be empty" s3) | _ => (Some tag, s3) end
    end
  end.

Fixpoint pair_up (l : list str) : list (str * str) := match l with a :: b :: r => (a, b) :: pair_up r | _ => [] end.
(* macroXset: the parameters it knows, and those whose value is rendered (escaped) at assignment *)
Definition known_params : list string :=
  ["dmark"; "document-author"; "document-date"; "document-title"; "epub-cover"; "epub-css"; "epub-metadata"; "epub-subject";
   "epub-uuid"; "epub-version"; "epub-nav-landmarks"; "lang"; "latex-preamble"; "latex-variant"; "mom-preamble"; "nbsp";
   "title-page"; "xhtml-bottom"; "xhtml-css"; "xhtml-index"; "xhtml-favicon"; "xhtml-go-up"; "xhtml-top"; "xhtml-version";
   "xhtml-chap-prefix"; "xhtml-chap-custom-filenames"; "xhtml-custom-ids"]%string.
Definition rendered_params : list string :=
  ["document-author"; "document-date"; "document-title"; "epub-subject"; "epub-uuid"; "xhtml-index"; "xhtml-go-up"; "xhtml-top"]%string.
Definition macro_x (s : st) : st :=
  if process s then s else
  match args s with
  | [] => err "not enough arguments" s
  | c :: rest =>
    let '(cmd, s1) := inlines_text c s in
    let s2 := s1 <| macro ::= fun m => m ++ [32] ++ cmd |> in
    if str_eqb cmd (R "dtag") then
      let '(o, s3) := parse_opts specOptXdtag rest s2 in
      let '(tg, s4) := x_common_ft o s3 in
      match tg with
      | None => s4
      | Some tag =>
        let '(pairs, s5) := opt_pairs o s4 in
        let '(c1, s6) := opt_text "c" o s5 in
        let '(d, s7) := xdtag c1 pairs s6 in
        s7 <| dtags ::= assoc_set tag d |>
      end
    else if str_eqb cmd (R "mtag") then
      let '(o, s3) := parse_opts specOptXmtag rest s2 in
      let '(tg, s4) := x_common_ft o s3 in
      match tg with
      | None => s4
      | Some tag =>
        let '(b, s5) := opt_render "b" o s4 in
        let '(e, s6) := opt_render "e" o s5 in
        let '(c0, s7) := match opt "c" o with Some t => let '(x, s') := inlines_text t s6 in (Some x, s') | None => (None, s6) end in
        let '(pairs, s8) := opt_pairs o s7 in
        let '(m, s9) := xmtag c0 b e pairs s8 in
        s9 <| mtags ::= assoc_set tag m |>
      end
    else if str_eqb cmd (R "ftag") then
      let '(o, s3) := parse_opts specOptXftag rest s2 in
      let '(skip, s4) := match opt "f" o with
                         | Some f => let '(fs, s') := formats_of f s3 in let s'' := check_formats fs s' in (not_export_format fs s'', s'')
                         | None => (false, s3) end in
      if skip then s4 else
      match opt "t" o with
      | None => err "-t option should be specified" s4
      | Some t =>
        let '(tag, s5) := inlines_text t s4 in
        match tag with [] => err "tag option argument cannot be empty" s5 | _ =>
        if flag "shell" o then
          match po_args o with
          | [] => err "missing arguments for shell command" s5
          | a => let '(sargs, s6) := fold_left (fun '(acc, s) x => let '(t, s') := inlines_text x s in (acc ++ [t], s')) a ([], s5) in
                 s6 <| filters ::= assoc_set tag (FShell sargs) |>
          end
        else match opt "gsub" o with
        | Some g =>
          let '(x, s6) := inlines_text g s5 in
          match x with
          | [] => err "invalid -gsub argument" s6
          | c :: r => let l := split_on c r [] in
                      if Nat.even (List.length l) then s6 <| filters ::= assoc_set tag (FGsub (pair_up l)) |>
                      else err "invalid -gsub argument (non even number of strings)" s6
          end
        | None => match opt "regexp" o with
                  | Some _ => err "regexp filters are not modelled" s5
                  | None => err "one of -shell/-gsub/-regexp option should be provided" s5 end
        end end
      end
    else if str_eqb cmd (R "set") then
      let '(o, s3) := parse_opts specOptXset rest s2 in
      let '(fs, s4) := match opt "f" o with Some f => formats_of f s3 | None => ([], s3) end in
      let s5 := check_formats fs s4 in
      if negb (Nat.eqb (List.length fs) 0) && not_export_format fs s5 then s5 else
      match po_args o with
      | p :: v :: more =>
        let s6 := match more with [] => s5 | _ => err "too many arguments" s5 end in
        let '(param, s7) := inlines_text p s6 in
        let s8 := if existsb (fun k => str_eqb param (runes k)) known_params then s7 else err "unknown parameter" s7 in
        let '(value, s9) := if existsb (fun k => str_eqb param (runes k)) rendered_params then render_text v s8 else inlines_text v s8 in
        let ok_s := check_param param value s9 in
        if fst ok_s then (snd ok_s) <| params ::= assoc_set param value |> else snd ok_s
      | _ => err "two arguments expected" s5
      end
    else s2
  end.

(* ---- builtins.go ---- *)
Definition macro_def_start (s : st) : st :=
  match udef s with
  | Some _ => if process s then err "not allowed in the scope of a previous #de" s else s
  | None =>
    let '(o, s1) := parse_opts specOptDef (args s) s in
    match po_args o with
    | [] => if process s1 then err "#de requires name argument" s1 else s1
    | n :: _ =>
      let '(ign, s2) := match opt "f" o with
                        | Some f => let '(fs, s') := formats_of f s1 in let s'' := check_formats fs s' in (not_export_format fs s'', s'')
                        | None => (false, s1) end in
      let '(name, s3) := inlines_text n s2 in
      s3 <| udef := Some (mkUm (line s3) name ign 0 [] [] false (cfile s3)) |>
    end
  end.

Definition search_args (bs : list block) (s : st) : nat * bool * list (str * bool) * st :=
  let scan_inl '(mx, lst, opts, s) (i : inline) :=
    match i with
    | IArg n => (Nat.max mx (N.to_nat n), lst, opts, s)
    | INamed v => match assoc v opts with
                  | None => (mx, lst, opts ++ [(v, true)], s)
                  | Some true => (mx, lst, opts, s)
                  | Some false => (mx, lst, opts, if process s then err "both as flag and option with argument" s else s) end
    | IFlag v => match assoc v opts with
                 | None => (mx, lst, opts ++ [(v, false)], s)
                 | Some false => (mx, lst, opts, s)
                 | Some true => (mx, lst, opts, if process s then err "both as flag and option with argument" s else s) end
    | IEsc e => (mx, lst || str_eqb e [36; 64], opts, s)
    | _ => (mx, lst, opts, s)
    end in
  fold_left (fun acc b => match b with
                          | BMacro _ a _ => fold_left (fun acc2 ar => fold_left scan_inl ar acc2) a acc
                          | BText t _ => fold_left scan_inl t acc end) bs (0%nat, false, [], s).

Definition macro_def_end (s : st) : st :=
  let s1 := if negb (Nat.eqb (List.length (args s)) 0) && process s then err "useless arguments" s else s in
  match udef s1 with
  | None => if process s1 then err "found #. without previous #de" s1 else s1
  | Some d =>
    if um_ignore d then s1 <| udef := None |> else
    let '(mx, lst, opts, s2) := search_args (um_blocks d) s1 in
    let d1 := mkUm (um_line d) (um_name d) false mx opts (um_blocks d) lst (um_file d) in
    s2 <| umacros ::= assoc_set (um_name d) d1 |> <| udef := None |>
  end.

Definition push_if (s : st) : st :=
  let '(sc, s1) := mk_scope [] [] [] false s in s1 <| sif ::= fun l => l ++ [sc] |>.
Definition macro_if_start (s : st) : st :=
  let s0 := push_if s in
  if Nat.ltb 0 (ifdepth s0) then s0 <| ifdepth ::= S |> else
  let '(o, s1) := parse_opts specOptIf (args s0) s0 in
  let a := po_args o in
  let s2 := if Nat.ltb 1 (List.length a) && process s1 then err "too many arguments" s1 else s1 in
  let '(ig1, s3) := match opt "f" o with
                    | Some f => let '(fs, s') := formats_of f s2 in
                                let s'' := if process s' then check_formats fs s' else s' in (not_export_format fs s'', s'')
                    | None => (false, s2) end in
  let '(ig2, s4) := match opt "eq" o with
                    | Some c => match a with
                                | [] => (ig1, if process s3 then err "compare string argument required" s3 else s3)
                                | x :: _ => let '(cs, s') := inlines_text c s3 in let '(xs, s'') := inlines_text x s' in
                                            (ig1 || negb (str_eqb cs xs), s'')
                                end
                    | None => (ig1, s3) end in
  let okeq := match opt "eq" o with Some _ => true | None => false end in
  let okf := match opt "f" o with Some _ => true | None => false end in
  let s5 := if negb okeq && negb okf && Nat.eqb (List.length a) 0 && process s4 then err "boolean argument required" s4 else s4 in
  let '(ig3, s6) := match a with
                    | x :: _ => if okeq then (ig2, s5) else
                                let '(xs, s') := inlines_text x s5 in ((if str_eqb xs [48] || str_eqb xs [] then true else ig2), s')
                    | [] => (ig2, s5) end in
  let ig := if flag "not" o then negb ig3 else ig3 in
  s6 <| ifdepth := (if ig then 1 else 0)%nat |>.
Definition macro_if_end (s : st) : st :=
  let s1 := if negb (Nat.eqb (List.length (args s)) 0) && process s then err "useless arguments" s else s in
  let s2 := s1 <| ifdepth ::= Nat.pred |> in
  match sif s2 with
  | [] => if process s2 then err "no corresponding #if" s2 else s2
  | _ => s2 <| sif ::= pop |>
  end.
Definition macro_def_var (s : st) : st :=
  let '(o, s1) := parse_opts specOptDef (args s) s in
  match po_args o with
  | [] => if process s1 then err "name argument required" s1 else s1
  | n :: vals =>
    let '(skip, s2) := match opt "f" o with
                       | Some f => let '(fs, s') := formats_of f s1 in
                                   let s'' := if process s' then check_formats fs s' else s' in (not_export_format fs s'', s'')
                       | None => (false, s1) end in
    if skip then s2 else
    let '(name, s3) := inlines_text n s2 in
    let '(v, s4) := args_text vals s3 in
    s4 <| ivars ::= assoc_set name v |>
  end.
End WithPim.

(* ---- usermacros.go ---- *)
Definition subst_text (argsc : nat) (a : list arg) (opts : list (str * arg)) (flags : list str) (t : list inline) (s : st) : list inline * st :=
  fold_left (fun '(res, s) i =>
    match i with
    | IArg n => let k := N.to_nat n in
                if Nat.ltb (List.length a) k || Nat.eqb k 0 then
                  (res ++ [IText (R "\$" ++ dec k)], if process s then err "missing argument" s else s)
                else (res ++ nth (k - 1) a [], s)
    | INamed v => match assoc v opts with
                  | Some x => (res ++ x, s)
                  | None => (res, if process s then err "missing named argument" s else s) end
    | IFlag v => (res ++ [IText (if existsb (str_eqb v) flags then [49] else [])], s)
    | IEsc e => if str_eqb e [36; 64] then
                  let rest := skipn (Nat.min (List.length a) argsc) a in
                  (res ++ List.concat (match rest with [] => [] | x :: r => x :: map (fun y => IText [32] :: y) r end), s)
                else (res ++ [i], s)
    | _ => (res ++ [i], s)
    end) t ([], s).
Definition subst_block (argsc : nat) (a : list arg) (opts : list (str * arg)) (flags : list str) (b : block) (s : st) : block * st :=
  match b with
  | BMacro n ar l =>
      let '(nargs, s1) := fold_left (fun '(acc, s) x =>
          match x with
          | [IEsc e] => if str_eqb e [36; 64] then (acc ++ skipn (Nat.min (List.length a) argsc) a, s)
                        else let '(y, s') := subst_text argsc a opts flags x s in (acc ++ [y], s')
          | _ => let '(y, s') := subst_text argsc a opts flags x s in (acc ++ [y], s')
          end) ar ([], s) in
      (BMacro n nargs l, s1)
  | BText t l => let '(y, s1) := subst_text argsc a opts flags t s in (BText y l, s1)
  end.

