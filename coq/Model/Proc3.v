(* Scratch prototype, Tier 3 slice: headers, X, control macros, user macros, the block loop, two passes *)
From Coq Require Import List NArith ZArith Bool Lia Arith String.
Import ListNotations.
Require Import Exp Proc1 Proc2 Xhtml.
Open Scope N_scope.

Section WithPim.
Variable pim : PIM.

Definition macro_header (s : st) : st :=
  let '(o, s1) := parse_opts specOptHeader (args s) s in
  let m := macro s1 in
  let nonum := flag "nonum" o in
  match po_args o with
  | [] => if process s1 then err "arguments required" s1 else s1
  | a =>
    if process s1 then
      let s2 := end_par PNormal (close_unclosed_block (close_unclosed_inline s1)) in
      let s3 := s2 <| toc ::= update_headers m nonum |> in
      let '(title, s4) := pim a s3 in
      let '(idx, s5) := opt_text "id" o s4 in
      let s6 := s5 <| cidx := idx |> in
      let s7 := if str_eqb m (R "Ch") || str_eqb m (R "Pt") then s6 <| cid := idx |> else s6 in
      let s8 := w title (begin_header m (negb nonum) title s7) in
      end_header m (negb nonum) title (close_unclosed_inline s8)
    else
      let s2 := s1 <| toc ::= update_headers m nonum |> in
      let s3 := if str_eqb m (R "Pt") then s2 <| toc ::= fun t => t <| hasPart := true |> |>
                else if str_eqb m (R "Ch") then s2 <| toc ::= fun t => t <| hasChapter := true |> |> else s2 in
      let '(id, s4) := opt_text "id" o s3 in
      let s5 := s4 <| cidx := id |> in
      let s6 := if str_eqb m (R "Ch") || str_eqb m (R "Pt") then s5 <| cid := id |> else s5 in
      let ref := header_reference s6 in
      let num := header_num (toc s6) m nonum in
      let s7 := match id with [] => s6 | _ => store_id id (mkId ref num 5) s6 end in
      let '(title, s8) := pim a s7 in
      let e := mkLox (hcount (toc s8)) m nonum num ref (R "s") title id in
      let s9 := s8 <| lox_toc ::= fun l => l ++ [e] |> in
      if str_eqb m (R "Pt") || str_eqb m (R "Ch") then s9 <| lox_nav ::= fun l => l ++ [e] |> else s9
  end.

(* readPairs *)
Definition read_pairs (t : str) : option (list str) :=
  match t with
  | [] => None
  | c :: r => let l := split_on c r [] in if Nat.even (List.length l) then Some l else None
  end.
Fixpoint check_pairs (n : nat) (p : list str) (s : st) : st :=
  match p with
  | k :: _ :: r =>
      let s1 := match k with [] => err "in -a option: key is empty" s | _ => s end in
      let s2 := if existsb (fun c => existsb (N.eqb c) [34; 39; 62; 47; 61]) k then err "in -a option: key contains invalid characters" s1 else s1 in
      let s3 := fold_left (fun a c => if is_space c then err "in -a option: key contains space" a else a) k s2 in
      check_pairs (S n) r s3
  | _ => s
  end.
Definition opt_pairs (o : popts) (s : st) : list str * st :=
  match opt "a" o with
  | None => ([], s)
  | Some t => let '(x, s1) := inlines_text t s in
              match read_pairs x with
              | Some p => (p, check_pairs 1 p s1)
              | None => ([], err "invalid -a argument (missing separator?)" s1)
              end
  end.

Definition x_common_ft (o : popts) (s : st) : option str * st :=      (* -f (required) and -t handling shared by dtag/mtag; None = stop *)
  match opt "f" o with
  | None => (None, err "-f option required" s)
  | Some f =>
    let '(fs, s1) := formats_of f s in
    let s2 := check_formats fs s1 in
    if not_export_format fs s2 then (None, s2) else
    match opt "t" o with
    | None => (None, err "-t option required" s2)
    | Some t => let '(tag, s3) := inlines_text t s2 in
                match tag with [] => (None, err "tag option argument cannot be empty" s3) | _ => (Some tag, s3) end
    end
  end.

Definition macro_x (s : st) : st :=
  if process s then s else
  match args s with
  | [] => err "not enough arguments" s
  | c :: rest =>
    let '(cmd, s1) := inlines_text c s in
    let s2 := s1 <| macro ::= fun m => m ++ [32] ++ cmd |> in
    if str_eqb cmd (R "dtag") then
      let '(o, s3) := parse_opts specOptXdtag rest s2 in
      let '(tg, s4) := x_common_ft o s3 in
      match tg with
      | None => s4
      | Some tag =>
        let '(pairs, s5) := opt_pairs o s4 in
        let '(c1, s6) := opt_text "c" o s5 in
        let '(d, s7) := xdtag c1 pairs s6 in
        s7 <| dtags ::= assoc_set tag d |>
      end
    else if str_eqb cmd (R "mtag") then
      let '(o, s3) := parse_opts specOptXmtag rest s2 in
      let '(tg, s4) := x_common_ft o s3 in
      match tg with
      | None => s4
      | Some tag =>
        let '(b, s5) := opt_render "b" o s4 in
        let '(e, s6) := opt_render "e" o s5 in
        let '(c0, s7) := match opt "c" o with Some t => let '(x, s') := inlines_text t s6 in (Some x, s') | None => (None, s6) end in
        let '(pairs, s8) := opt_pairs o s7 in
        let '(m, s9) := xmtag c0 b e pairs s8 in
        s9 <| mtags ::= assoc_set tag m |>
      end
    else if str_eqb cmd (R "set") then
      let '(o, s3) := parse_opts specOptXset rest s2 in
      let '(fs, s4) := match opt "f" o with Some f => formats_of f s3 | None => ([], s3) end in
      let s5 := check_formats fs s4 in
      if negb (Nat.eqb (List.length fs) 0) && not_export_format fs s5 then s5 else
      match po_args o with
      | p :: v :: more =>
        let s6 := match more with [] => s5 | _ => err "too many arguments" s5 end in
        let '(param, s7) := inlines_text p s6 in
        let known := ["dmark"; "document-author"; "document-date"; "document-title"; "epub-cover"; "epub-css"; "epub-metadata"; "epub-subject";
                      "epub-uuid"; "epub-version"; "epub-nav-landmarks"; "lang"; "latex-preamble"; "latex-variant"; "mom-preamble"; "nbsp";
                      "title-page"; "xhtml-bottom"; "xhtml-css"; "xhtml-index"; "xhtml-favicon"; "xhtml-go-up"; "xhtml-top"; "xhtml-version";
                      "xhtml-chap-prefix"; "xhtml-chap-custom-filenames"; "xhtml-custom-ids"]%string in
        let s8 := if existsb (fun k => str_eqb param (runes k)) known then s7 else err "unknown parameter" s7 in
        let rendered := ["document-author"; "document-date"; "document-title"; "epub-subject"; "epub-uuid"; "xhtml-index"; "xhtml-go-up"; "xhtml-top"]%string in
        let '(value, s9) := if existsb (fun k => str_eqb param (runes k)) rendered then render_text v s8 else inlines_text v s8 in
        let ok_s := check_param param value s9 in
        if fst ok_s then (snd ok_s) <| params ::= assoc_set param value |> else snd ok_s
      | _ => err "two arguments expected" s5
      end
    else s2
  end.

(* ---- builtins.go ---- *)
Definition macro_def_start (s : st) : st :=
  match udef s with
  | Some _ => if process s then err "not allowed in the scope of a previous #de" s else s
  | None =>
    let '(o, s1) := parse_opts specOptDef (args s) s in
    match po_args o with
    | [] => if process s1 then err "#de requires name argument" s1 else s1
    | n :: _ =>
      let '(ign, s2) := match opt "f" o with
                        | Some f => let '(fs, s') := formats_of f s1 in let s'' := check_formats fs s' in (not_export_format fs s'', s'')
                        | None => (false, s1) end in
      let '(name, s3) := inlines_text n s2 in
      s3 <| udef := Some (mkUm (line s3) name ign 0 [] [] false) |>
    end
  end.

Definition search_args (bs : list block) (s : st) : nat * bool * list (str * bool) * st :=
  let scan_inl '(mx, lst, opts, s) (i : inline) :=
    match i with
    | IArg n => (Nat.max mx (N.to_nat n), lst, opts, s)
    | INamed v => match assoc v opts with
                  | None => (mx, lst, opts ++ [(v, true)], s)
                  | Some true => (mx, lst, opts, s)
                  | Some false => (mx, lst, opts, if process s then err "both as flag and option with argument" s else s) end
    | IFlag v => match assoc v opts with
                 | None => (mx, lst, opts ++ [(v, false)], s)
                 | Some false => (mx, lst, opts, s)
                 | Some true => (mx, lst, opts, if process s then err "both as flag and option with argument" s else s) end
    | IEsc e => (mx, lst || str_eqb e [36; 64], opts, s)
    | _ => (mx, lst, opts, s)
    end in
  fold_left (fun acc b => match b with
                          | BMacro _ a _ => fold_left (fun acc2 ar => fold_left scan_inl ar acc2) a acc
                          | BText t _ => fold_left scan_inl t acc end) bs (0%nat, false, [], s).

Definition macro_def_end (s : st) : st :=
  let s1 := if negb (Nat.eqb (List.length (args s)) 0) && process s then err "useless arguments" s else s in
  match udef s1 with
  | None => if process s1 then err "found #. without previous #de" s1 else s1
  | Some d =>
    if um_ignore d then s1 <| udef := None |> else
    let '(mx, lst, opts, s2) := search_args (um_blocks d) s1 in
    let d1 := mkUm (um_line d) (um_name d) false mx opts (um_blocks d) lst in
    s2 <| umacros ::= assoc_set (um_name d) d1 |> <| udef := None |>
  end.

Definition push_if (s : st) : st :=
  let '(sc, s1) := mk_scope [] [] [] false s in s1 <| sif ::= fun l => l ++ [sc] |>.
Definition macro_if_start (s : st) : st :=
  let s0 := push_if s in
  if Nat.ltb 0 (ifdepth s0) then s0 <| ifdepth ::= S |> else
  let '(o, s1) := parse_opts specOptIf (args s0) s0 in
  let a := po_args o in
  let s2 := if Nat.ltb 1 (List.length a) && process s1 then err "too many arguments" s1 else s1 in
  let '(ig1, s3) := match opt "f" o with
                    | Some f => let '(fs, s') := formats_of f s2 in
                                let s'' := if process s' then check_formats fs s' else s' in (not_export_format fs s'', s'')
                    | None => (false, s2) end in
  let '(ig2, s4) := match opt "eq" o with
                    | Some c => match a with
                                | [] => (ig1, if process s3 then err "compare string argument required" s3 else s3)
                                | x :: _ => let '(cs, s') := inlines_text c s3 in let '(xs, s'') := inlines_text x s' in
                                            (ig1 || negb (str_eqb cs xs), s'')
                                end
                    | None => (ig1, s3) end in
  let okeq := match opt "eq" o with Some _ => true | None => false end in
  let okf := match opt "f" o with Some _ => true | None => false end in
  let s5 := if negb okeq && negb okf && Nat.eqb (List.length a) 0 && process s4 then err "boolean argument required" s4 else s4 in
  let '(ig3, s6) := match a with
                    | x :: _ => if okeq then (ig2, s5) else
                                let '(xs, s') := inlines_text x s5 in ((if str_eqb xs [48] || str_eqb xs [] then true else ig2), s')
                    | [] => (ig2, s5) end in
  let ig := if flag "not" o then negb ig3 else ig3 in
  s6 <| ifdepth := (if ig then 1 else 0)%nat |>.
Definition macro_if_end (s : st) : st :=
  let s1 := if negb (Nat.eqb (List.length (args s)) 0) && process s then err "useless arguments" s else s in
  let s2 := s1 <| ifdepth ::= Nat.pred |> in
  match sif s2 with
  | [] => if process s2 then err "no corresponding #if" s2 else s2
  | _ => s2 <| sif ::= pop |>
  end.
Definition macro_def_var (s : st) : st :=
  let '(o, s1) := parse_opts specOptDef (args s) s in
  match po_args o with
  | [] => if process s1 then err "name argument required" s1 else s1
  | n :: vals =>
    let '(skip, s2) := match opt "f" o with
                       | Some f => let '(fs, s') := formats_of f s1 in
                                   let s'' := if process s' then check_formats fs s' else s' in (not_export_format fs s'', s'')
                       | None => (false, s1) end in
    if skip then s2 else
    let '(name, s3) := inlines_text n s2 in
    let '(v, s4) := args_text vals s3 in
    s4 <| ivars ::= assoc_set name v |>
  end.
End WithPim.

(* ---- usermacros.go ---- *)
Definition subst_text (argsc : nat) (a : list arg) (opts : list (str * arg)) (flags : list str) (t : list inline) (s : st) : list inline * st :=
  fold_left (fun '(res, s) i =>
    match i with
    | IArg n => let k := N.to_nat n in
                if Nat.ltb (List.length a) k || Nat.eqb k 0 then
                  (res ++ [IText (R "\$" ++ dec k)], if process s then err "missing argument" s else s)
                else (res ++ nth (k - 1) a [], s)
    | INamed v => match assoc v opts with
                  | Some x => (res ++ x, s)
                  | None => (res, if process s then err "missing named argument" s else s) end
    | IFlag v => (res ++ [IText (if existsb (str_eqb v) flags then [49] else [])], s)
    | IEsc e => if str_eqb e [36; 64] then
                  let rest := skipn (Nat.min (List.length a) argsc) a in
                  (res ++ List.concat (match rest with [] => [] | x :: r => x :: map (fun y => IText [32] :: y) r end), s)
                else (res ++ [i], s)
    | _ => (res ++ [i], s)
    end) t ([], s).
Definition subst_block (argsc : nat) (a : list arg) (opts : list (str * arg)) (flags : list str) (b : block) (s : st) : block * st :=
  match b with
  | BMacro n ar l =>
      let '(nargs, s1) := fold_left (fun '(acc, s) x =>
          match x with
          | [IEsc e] => if str_eqb e [36; 64] then (acc ++ skipn (Nat.min (List.length a) argsc) a, s)
                        else let '(y, s') := subst_text argsc a opts flags x s in (acc ++ [y], s')
          | _ => let '(y, s') := subst_text argsc a opts flags x s in (acc ++ [y], s')
          end) ar ([], s) in
      (BMacro n nargs l, s1)
  | BText t l => let '(y, s1) := subst_text argsc a opts flags t s in (BText y l, s1)
  end.

(* ---- the block loop (process.go), processInlineMacros, user macros: one recursion on fuel ---- *)
Definition is_name (n : str) (m : string) : bool := str_eqb n (runes m).

Fixpoint process_blocks (fuel : nat) (bs : list block) (s : st) : st :=
  match fuel with O => s <| panicked := Some (R "out of fuel") |> | S f =>
  let pim : PIM := fun (a : list arg) (s : st) =>
    (* processInlineMacros *)
    let blocks :=
      fold_left (fun bl (x : arg) =>
        match x with
        | [] => bl
        | [IText t] => if is_name t "Bm" || is_name t "Em" || is_name t "Sm" then bl ++ [BMacro t [] (line s)]
                       else match rev bl with
                            | [] => [BText x (line s)]
                            | BMacro n ar l :: r => rev r ++ [BMacro n (ar ++ [x]) l]
                            | BText t0 l :: r => rev r ++ [BText (match t0 with [] => x | _ => t0 ++ [IText [32]] ++ x end) l]
                            end
        | _ => match rev bl with
               | [] => [BText x (line s)]
               | BMacro n ar l :: r => rev r ++ [BMacro n (ar ++ [x]) l]
               | BText t0 l :: r => rev r ++ [BText (match t0 with [] => x | _ => t0 ++ [IText [32]] ++ x end) l]
               end
        end) a [] in
    let blocks := match blocks with [] => [BText [] (line s)] | _ => blocks end in
    let s1 := (if negb (process s) then s <| quiet := true |> else s)
                <| buf := [] |> <| ws := false |> <| inl := true |> <| par := true |> <| process := true |> <| has_cur := true |> in
    let s2 := process_blocks f blocks s1 in
    let s3 := if negb (par s) then close_unclosed_inline s2 else s2 in
    (buf s3, s3 <| buf := buf s |> <| macro := macro s |> <| args := args s |> <| ws := ws s |> <| inl := false |>
                <| par := par s |> <| process := process s |> <| quiet := false |> <| has_cur := has_cur s |> <| line := line s3 |>) in
  match bs with
  | [] => s
  | b :: rest =>
    let s0 := match b with
              | BMacro n a l => s <| args := a |> <| macro := n |> <| line := l |> <| has_cur := true |>
              | BText t l => s <| text := t |> <| line := l |> <| has_cur := true |>
              end in
    let s1 :=
      if Nat.ltb 0 (ifdepth s0) then
        match b with
        | BMacro n _ _ => if is_name n "#;" then macro_if_end s0 else if is_name n "#if" then macro_if_start s0 else s0
        | _ => s0
        end
      else match udef s0 with
      | Some d =>
        match b with
        | BMacro n _ _ =>
            if is_name n "#." then macro_def_end s0
            else if is_name n "#de" then macro_def_start s0
            else if um_ignore d then s0 else s0 <| udef := Some (mkUm (um_line d) (um_name d) (um_ignore d) 0 [] (um_blocks d ++ [b]) false) |>
        | BText _ _ => if um_ignore d then s0 else s0 <| udef := Some (mkUm (um_line d) (um_name d) (um_ignore d) 0 [] (um_blocks d ++ [b]) false) |>
        end
      | None =>
        match b with
        | BText _ _ => (process_text s0) <| prev := [] |>
        | BMacro n a l =>
          match assoc n (umacros s0) with
          | Some m =>
            (* processUserMacro *)
            if Nat.ltb 42 (cdepth s0) then (if process s0 then err "recursive macro: too much depth" s0 else s0) else
            let sq := if negb (process s0) then s0 <| quiet := true |> else s0 in
            let '(o, sa) := parse_opts (um_opts m) (args sq) sq in
            let sb := if negb (process sa) then sa <| quiet := false |> else sa in
            let sc := if negb (um_list m) && Nat.ltb (um_argsc m) (List.length (po_args o)) && process sb then err "too many arguments" sb else sb in
            let '(blocks, sd) :=
              if Nat.ltb 0 (um_argsc m) || um_list m || negb (Nat.eqb (List.length (um_opts m)) 0) then
                fold_left (fun '(acc, s) b0 => let '(b1, s') := subst_block (um_argsc m) (po_args o) (po_opts o) (po_flags o) b0 s in (acc ++ [b1], s'))
                          (um_blocks m) ([], sc)
              else (um_blocks m, sc) in
            let se := if Nat.eqb (cdepth sd) 0 then sd <| cloc := Some (l, n) |> else sd in
            let sf := process_blocks f blocks (se <| cdepth ::= S |> <| has_cur := true |>) in
            let sg := sf <| cdepth ::= Nat.pred |> <| has_cur := has_cur s0 |> in
            if Nat.eqb (cdepth sg) 0 then sg <| cloc := None |> else sg
          | None =>
            let handler : option (st -> st) :=
              if is_name n "Bd" then Some macro_bd else if is_name n "Bf" then Some macro_bf
              else if is_name n "Bl" then Some (macro_bl pim) else if is_name n "Bm" then Some macro_bm
              else if is_name n "Ch" || is_name n "Pt" || is_name n "Sh" || is_name n "Ss" then Some (macro_header pim)
              else if is_name n "D" then Some macro_d else if is_name n "Ed" then Some macro_ed
              else if is_name n "Ef" then Some macro_ef else if is_name n "El" then Some macro_el
              else if is_name n "Em" then Some macro_em else if is_name n "Ft" then Some macro_ft
              else if is_name n "Im" then Some macro_im else if is_name n "It" then Some (macro_it pim)
              else if is_name n "Lk" then Some (macro_lk pim) else if is_name n "P" then Some (macro_p pim)
              else if is_name n "Sm" then Some macro_sm else if is_name n "Sx" then Some (macro_sx pim)
              else if is_name n "Ta" then Some (macro_ta pim) else if is_name n "Tc" then Some macro_tc
              else if is_name n "X" then Some macro_x
              else if is_name n "#de" then Some macro_def_start else if is_name n "#." then Some macro_def_end
              else if is_name n "#if" then Some macro_if_start else if is_name n "#;" then Some macro_if_end
              else if is_name n "#dv" then Some macro_def_var
              else None in
            match handler with
            | Some h =>
              let sx := match bf s0 with
                        | Some _ => if is_name n "Ef" || is_name n "#if" || is_name n "#;" then s0 else err "found macro while Bf isn't closed" s0
                        | None => s0 end in
              (h sx) <| prev := n |>
            | None => match n with [] => s0 | _ => if process s0 then err "unknown macro" s0 else s0 end
            end
          end
        end
      end in
    match panicked s1 with Some _ => s1 | None => process_blocks f rest s1 end
  end end.

(* ---- ProcessFrundisSource for xhtml -a (fragment): two passes over the same blocks, then the end-of-file sweep ---- *)
Definition init_st : st :=
  mkSt [] [] [] 0 [] false false false false false false false [] [] [] None [] [] []
       (mkToc false false 0 0 0 0 0 0 0 0 0) [] [] [] [] [] [] []
       0 0 0 0 [] [] false false [] 0 false 0 [] []
       [(R "xhtml-index", R "full"); (R "lang", R "en")] [] []
       0 None [] [] 0 None false (R "xhtml") [] false false 0%Z [] 0 [] [] [] [] None.

Definition reset (s : st) : st :=
  init_st <| format := format s |> <| existing := existing s |> <| mode := mode s |> <| dtags := dtags s |> <| ids := ids s |> <| images := images s |> <| mtags := mtags s |> <| params := params s |>
          <| lox_toc := lox_toc s |> <| lox_nav := lox_nav s |> <| lox_lof := lox_lof s |> <| lox_lot := lox_lot s |> <| lox_lop := lox_lop s |>
          <| toc := reset_counters (toc s) |> <| tinfo := tinfo s |> <| diags := diags s |> <| process := true |>.

(* exporter Reset (after the context reset) and PostProcessing, for XHTML standalone / multi-file *)
Definition exp_reset (s : st) : st :=
  match fmt s, mode s with
  | FX, 1%nat => X.title_page (wo (X.doc_header (X.param "document-title" s) s) s)
  | FX, 2%nat =>
      let s1 := X.title_page (wo (X.doc_header (X.param "document-title" s) s) (s <| curfile := R "index.html" |>)) in
      let idx := X.param "xhtml-index" s1 in
      if str_eqb idx (R "full") then X.write_toc (mkPo [] [] []) s1
      else if str_eqb idx (R "summary") then X.write_toc (mkPo [] [R "summary"] []) s1 else s1
  | FX, 3%nat =>
      let s1 := X.epub_gen s in
      X.title_page (wo (X.doc_header (X.param "document-title" s1) s1) (s1 <| curfile := R "EPUB/index.xhtml" |>))
  | _, _ => s
  end.
Definition exp_post (s : st) : st :=
  match fmt s, mode s with
  | FX, 1%nat => wo X.doc_footer s
  | FX, 2%nat => wo X.doc_footer (match navtext s with [] => s | n => wo n s end)
  | FX, 3%nat => wo X.doc_footer s
  | _, _ => s
  end.

Definition compile (fuel : nat) (fmtname : str) (md : nat) (ex : list str) (bs : list block) : st :=
  let s1 := process_blocks fuel bs (init_st <| format := fmtname |> <| mode := md |> <| existing := ex |>
              <| params := (if str_eqb fmtname (R "xhtml") || str_eqb fmtname (R "epub") then [(R "xhtml-index", R "full"); (R "lang", R "en")] else [(R "lang", R "en")]) |>) in
  match panicked s1 with Some _ => s1 | None =>
  let s2 := process_blocks fuel bs (exp_reset (reset s1)) in
  match panicked s2 with Some _ => s2 | None =>
  let s3 := s2 <| has_cur := false |> <| macro := R "End Of File" |> in
  let s4 := close_unclosed_block (end_par PNormal (close_unclosed_inline s3)) in
  let s5 := match top (sif s4) with Some sc => warn_unclosed sc s4 | None => s4 end in
  let s6 := match bf s5 with Some _ => err "found End Of File while Bf isn't closed" s5 | None => s5 end in
  let s7 := match udef s6 with Some _ => err "found End Of File while #de isn't closed" s6 | None => s6 end in
  let s8 := exp_post s7 in
  s8 <| files ::= fun l => l ++ [(curfile s8, wout s8)] |>
  end end.

Definition compile_source (fmtname : str) (md : nat) (ex : list str) (src : str) : st :=
  let '(bs, e) := parse src in
  match e with
  | Some _ => init_st <| panicked := Some (R "parse error") |>
  | None => compile (40 * List.length bs + 2000)%nat fmtname md ex bs
  end.
