(* Scratch prototype, Tier 3 slice: shared definitions *)
From Coq Require Import List NArith Bool Lia Arith.
Import ListNotations.
Open Scope N_scope.
Require Import Scan.

Fixpoint str_eqb (a b : str) : bool :=
  match a, b with [], [] => true | x :: a', y :: b' => (x =? y) && str_eqb a' b' | _, _ => false end.

(* ASCII literals as rune lists *)
Definition s_of (l : list N) : str := l.

Fixpoint assoc {A} (k : str) (m : list (str * A)) : option A :=
  match m with [] => None | (k', v) :: r => if str_eqb k k' then Some v else assoc k r end.
Definition assoc_set {A} (k : str) (v : A) (m : list (str * A)) : list (str * A) := (k, v) :: m.   (* last binding wins: newest first *)
Definition has_key {A} (k : str) (m : list (str * A)) : bool := match assoc k m with Some _ => true | None => false end.

(* decimal printing of nat *)
Fixpoint dec_digits (fuel n : nat) (acc : str) : str :=
  match fuel with O => acc | S f =>
    let d := N.of_nat (n mod 10) + 48 in
    if Nat.ltb n 10 then d :: acc else dec_digits f (n / 10) (d :: acc) end.
Definition dec (n : nat) : str := dec_digits (S n) n [].

Fixpoint join_with (sep : str) (l : list str) : str :=
  match l with [] => [] | [x] => x | x :: r => x ++ sep ++ join_with sep r end.

Fixpoint split_on (c : rune) (l : str) (cur : str) : list str :=
  match l with [] => [rev cur] | x :: r => if x =? c then rev cur :: split_on c r [] else split_on c r (x :: cur) end.

Definition html_escape (s : str) : str :=
  flat_map (fun c => if c =? 38 then [38;97;109;112;59]           (* &amp; *)
                     else if c =? 60 then [38;108;116;59]           (* &lt; *)
                     else if c =? 62 then [38;103;116;59]           (* &gt; *)
                     else if c =? 39 then [38;35;51;57;59]          (* &#39; *)
                     else if c =? 34 then [38;35;51;52;59]          (* &#34; *)
                     else [c]) s.

Definition contains_space (s : str) : bool := existsb is_space s.

(* strings.Replacer with single-rune keys *)
Definition repl (tbl : list (rune * str)) (s : str) : str :=
  flat_map (fun c => match find (fun p => fst p =? c) tbl with Some p => snd p | None => [c] end) s.
Definition latex_tbl : list (rune * str) :=
  [ (123, [92;123]); (125, [92;125]); (91,[91]); (93,[93]); (37,[92;37]); (38,[92;38]);
    (36,[92;36]); (35,[92;35]); (95,[92;95]); (94,[92;94;123;125]);
    (92,[92;116;101;120;116;98;97;99;107;115;108;97;115;104;123;125]);
    (126,[92;126;123;125]); (160,[126]) ].
Definition roff_tbl : list (rune * str) :=
  [ (34,[92;40;100;113]); (8230,[46;46;46]); (39,[92;40;99;113]); (46,[92;38;46]); (92,[92;101]); (160,[92;126]) ].
Definition markdown_tbl : list (rune * str) :=
  [ (42,[92;42]); (96,[92;96]); (95,[92;95]); (35,[92;35]); (91,[92;91]); (62,[92;62]); (93,[92;93]); (126,[92;126]); (92,[92;92]) ].
Definition latex_escape := repl latex_tbl.
Definition roff_escape := repl roff_tbl.
Definition markdown_escape := repl markdown_tbl.
Definition latex_percent (s : str) : str := flat_map (fun c => if c =? 37 then [92;37] else [c]) s.
Definition contains_any (chars s : str) : bool := existsb (fun c => existsb (N.eqb c) chars) s.
