(* Scratch prototype, Tier 3 slice: shared definitions *)
From Coq Require Import List NArith Bool Lia Arith.
Import ListNotations.
Open Scope N_scope.
Require Import Scan.
Require Repl Tables.

Fixpoint str_eqb (a b : str) : bool :=
  match a, b with [], [] => true | x :: a', y :: b' => (x =? y) && str_eqb a' b' | _, _ => false end.

(* ASCII literals as rune lists *)
Definition s_of (l : list N) : str := l.

Fixpoint assoc {A} (k : str) (m : list (str * A)) : option A :=
  match m with [] => None | (k', v) :: r => if str_eqb k k' then Some v else assoc k r end.
Definition assoc_set {A} (k : str) (v : A) (m : list (str * A)) : list (str * A) := (k, v) :: m.   (* last binding wins: newest first *)
Definition has_key {A} (k : str) (m : list (str * A)) : bool := match assoc k m with Some _ => true | None => false end.

(* decimal printing of nat *)
Fixpoint dec_digits (fuel n : nat) (acc : str) : str :=
  match fuel with O => acc | S f =>
    let d := N.of_nat (n mod 10) + 48 in
    if Nat.ltb n 10 then d :: acc else dec_digits f (n / 10) (d :: acc) end.
Definition dec (n : nat) : str := dec_digits (S n) n [].

Fixpoint join_with (sep : str) (l : list str) : str :=
  match l with [] => [] | [x] => x | x :: r => x ++ sep ++ join_with sep r end.

Fixpoint split_on (c : rune) (l : str) (cur : str) : list str :=
  match l with [] => [rev cur] | x :: r => if x =? c then rev cur :: split_on c r [] else split_on c r (x :: cur) end.

(* html.EscapeString, escape.LaTeX/Roff/Markdown: strings.Replacer over the tables regenerated from the source *)
Definition html_escape (s : str) : str := Repl.enc Tables.html_table s.

Definition contains_space (s : str) : bool := existsb is_space s.

Definition latex_escape := Repl.enc Tables.latex_table.
Definition roff_escape := Repl.enc Tables.roff_table.
Definition markdown_escape := Repl.enc Tables.markdown_table.
Definition latex_percent (s : str) : str := flat_map (fun c => if c =? 37 then [92;37] else [c]) s.
(* latex.go escapeURL: percent, and the braces and backslashes url.URL.String leaves in the query *)
Definition latex_url1 (c : rune) : str :=
  if c =? 37 then [92;37] else if c =? 123 then [92;37;55;66] else if c =? 125 then [92;37;55;68] else if c =? 92 then [92;37;53;67] else [c].
Definition latex_url (s : str) : str := flat_map latex_url1 s.
Definition contains_any (chars s : str) : bool := existsb (fun c => existsb (N.eqb c) chars) s.
(* the character sets of the source's guards (tied to the source by Proofs/CharSets.v) *)
Definition brace_chars : str := [123; 125].
Definition tex_name_bad_chars : str := [123; 125; 92].
Definition id_unsafe_chars : str := [38; 60; 62; 34; 39].
Definition key_bad_chars : str := [34; 39; 62; 47; 61; 60; 38].
Definition key_bad_first : str := [48; 49; 50; 51; 52; 53; 54; 55; 56; 57; 45; 46].
Definition anchor_tail_chars : str := [48; 49; 50; 51; 52; 53; 54; 55; 56; 57; 45].
