(* Scratch prototype: frundis/utils.go FrenchTypography / EnglishTypography and property C20 *)
From Coq Require Import List NArith Bool Lia.
Import ListNotations.
Open Scope N_scope.

Definition rune := N.
Definition str := list rune.

Inductive inline := IText (s : str) | IEsc (s : str) | IOther (k : N) (s : str).   (* IOther: Var/Arg/Named/Flag *)

Definition AMP : str := [38]. Definition TILDE : str := [126].
Definition NBSP : rune := 160. Definition LGUIL : rune := 171. Definition RGUIL : rune := 187.
Definition APOS : rune := 39. Definition RSQUO : rune := 8217.

Definition str_eqb (a b : str) : bool :=
  (fix go a b := match a, b with [] , [] => true | x :: a', y :: b' => (x =? y) && go a' b' | _, _ => false end) a b.
Definition protecting (e : str) : bool := str_eqb e AMP || str_eqb e TILDE.
Definition is_mark (c : rune) : bool := (c =? 33) || (c =? 58) || (c =? 59) || (c =? 63) || (c =? RGUIL).

(* state while scanning one Text fragment *)
Record fst_ := { out : list inline;      (* newtext, in order *)
                 pend : str;             (* elt[start:j] *)
                 esc : bool; spc : bool; errs : nat }.

Definition emit (s : fst_) (l : list inline) : fst_ :=
  {| out := out s ++ l; pend := pend s; esc := esc s; spc := spc s; errs := errs s |}.
Definition flush_pend (s : fst_) : list inline := match pend s with [] => [] | p => [IText p] end.

(* [nxt] : the rune following c in the same fragment, if any; [after] : what follows the fragment *)
Inductive follow := FollowProtecting | FollowOther | FollowNone.

Definition french_rune (after : follow) (s : fst_) (c : rune) (nxt : option rune) : fst_ :=
  let s1 :=
    if is_mark c then
      let e := if spc s then S (errs s) else errs s in
      if esc s then {| out := out s; pend := pend s ++ [c]; esc := false; spc := spc s; errs := e |}
      else {| out := out s ++ flush_pend s ++ [IEsc TILDE]; pend := [c]; esc := false; spc := spc s; errs := e |}
    else if c =? NBSP then {| out := out s; pend := pend s ++ [c]; esc := true; spc := spc s; errs := errs s |}
    else if c =? LGUIL then
      match nxt with
      | Some r =>
        let e := if r =? 32 then S (errs s) else errs s in
        if r =? NBSP then {| out := out s; pend := pend s ++ [c]; esc := esc s; spc := spc s; errs := e |}
        else {| out := out s ++ [IText (pend s ++ [c]); IEsc TILDE]; pend := []; esc := esc s; spc := spc s; errs := e |}
      | None =>
        match after with
        | FollowProtecting => {| out := out s; pend := pend s ++ [c]; esc := esc s; spc := spc s; errs := errs s |}
        | _ => {| out := out s ++ [IText (pend s ++ [c]); IEsc TILDE]; pend := []; esc := esc s; spc := spc s; errs := errs s |}
        end
      end
    else if c =? APOS then
      if esc s then {| out := out s; pend := pend s ++ [c]; esc := false; spc := spc s; errs := errs s |}
      else {| out := out s ++ flush_pend s ++ [IText [RSQUO]]; pend := []; esc := false; spc := spc s; errs := errs s |}
    else {| out := out s; pend := pend s ++ [c]; esc := false; spc := spc s; errs := errs s |} in
  {| out := out s1; pend := pend s1; esc := esc s1; spc := (c =? 32) || (c =? 10); errs := errs s1 |}.

Fixpoint french_text (after : follow) (s : fst_) (t : str) : fst_ :=
  match t with
  | [] => s
  | c :: r => french_text after (french_rune after s c (hd_error r)) r
  end.

Definition classify (rest : list inline) : follow :=
  match rest with
  | [] => FollowNone
  | IEsc e :: _ => if protecting e then FollowProtecting else FollowOther
  | _ => FollowOther
  end.

(* whole inline list; the escape flag persists across elements, the space flag is per fragment *)
Fixpoint french_go (l : list inline) (acc : list inline) (e : bool) (errs0 : nat) : list inline * nat :=
  match l with
  | [] => (acc, errs0)
  | IEsc x :: r => french_go r (acc ++ [IEsc x]) (protecting x) errs0
  | IText t :: r =>
      let s := french_text (classify r) {| out := acc; pend := []; esc := e; spc := false; errs := errs0 |} t in
      french_go r (out s ++ flush_pend s) (esc s) (errs s)
  | o :: r => french_go r (acc ++ [o]) e errs0
  end.
Definition french (l : list inline) : list inline * nat := french_go l [] false 0.

(* English: only apostrophes *)
Definition english_rune (s : fst_) (c : rune) : fst_ :=
  if c =? APOS then
    if esc s then {| out := out s; pend := pend s ++ [c]; esc := false; spc := spc s; errs := errs s |}
    else {| out := out s ++ flush_pend s ++ [IText [RSQUO]]; pend := []; esc := false; spc := spc s; errs := errs s |}
  else {| out := out s; pend := pend s ++ [c]; esc := false; spc := spc s; errs := errs s |}.
Fixpoint english_go (l : list inline) (acc : list inline) (e : bool) : list inline :=
  match l with
  | [] => acc
  | IEsc x :: r => english_go r (acc ++ [IEsc x]) (protecting x)
  | IText t :: r =>
      let s := fold_left english_rune t {| out := acc; pend := []; esc := e; spc := false; errs := 0 |} in
      english_go r (out s ++ flush_pend s) (esc s)
  | o :: r => english_go r (acc ++ [o]) e
  end.
Definition english (l : list inline) := english_go l [] false.
