(* Scratch prototype, Tier 3 slice: the Renderer interface dispatched on the export format *)
From Coq Require Import List NArith ZArith Bool Lia Arith String.
Import ListNotations.
Require Export St Text Common.
Require Import Xhtml Latex Mom Md.
Open Scope N_scope.

Inductive fmtk := FX | FL | FM | FK.
Definition fmt (s : st) : fmtk :=
  if str_eqb (format s) (R "latex") then FL else if str_eqb (format s) (R "mom") then FM
  else if str_eqb (format s) (R "markdown") then FK else FX.


Definition begin_desc_list (a : str) (s : st) : st := match fmt s with FX => X.begin_desc_list a s | FL => L.begin_desc_list a s | FM => M.begin_desc_list a s | FK => K.begin_desc_list a s end.
Definition begin_desc_value (s : st) : st := match fmt s with FX => X.begin_desc_value s | FL => L.begin_desc_value s | FM => M.begin_desc_value s | FK => K.begin_desc_value s end.
Definition begin_dialogue (s : st) : st := match fmt s with FX => X.begin_dialogue s | FL => L.begin_dialogue s | FM => M.begin_dialogue s | FK => K.begin_dialogue s end.
Definition begin_display_block (a : str) (b : str) (s : st) : st := match fmt s with FX => X.begin_display_block a b s | FL => L.begin_display_block a b s | FM => M.begin_display_block a b s | FK => K.begin_display_block a b s end.
Definition begin_enum_list (a : str) (s : st) : st := match fmt s with FX => X.begin_enum_list a s | FL => L.begin_enum_list a s | FM => M.begin_enum_list a s | FK => K.begin_enum_list a s end.
Definition begin_item_list (a : str) (s : st) : st := match fmt s with FX => X.begin_item_list a s | FL => L.begin_item_list a s | FM => M.begin_item_list a s | FK => K.begin_item_list a s end.
Definition begin_item (s : st) : st := match fmt s with FX => X.begin_item s | FL => L.begin_item s | FM => M.begin_item s | FK => K.begin_item s end.
Definition begin_enum_item (s : st) : st := match fmt s with FX => X.begin_enum_item s | FL => L.begin_enum_item s | FM => M.begin_enum_item s | FK => K.begin_enum_item s end.
Definition begin_header (a : str) (b : bool) (title : str) (s : st) : st := match fmt s with FX => X.begin_header a b title s | FL => L.begin_header a b s | FM => M.begin_header a b s | FK => K.begin_header a b s end.
Definition begin_markup_block (a : str) (b : str) (s : st) : st := match fmt s with FX => X.begin_markup_block a b s | FL => L.begin_markup_block a b s | FM => M.begin_markup_block a b s | FK => K.begin_markup_block a b s end.
Definition begin_paragraph (s : st) : st := match fmt s with FX => X.begin_paragraph s | FL => L.begin_paragraph s | FM => M.begin_paragraph s | FK => K.begin_paragraph s end.
Definition begin_table (a : tdata) (s : st) : st := match fmt s with FX => X.begin_table a s | FL => L.begin_table a s | FM => M.begin_table a s | FK => K.begin_table a s end.
Definition begin_table_cell (s : st) : st := match fmt s with FX => X.begin_table_cell s | FL => L.begin_table_cell s | FM => M.begin_table_cell s | FK => K.begin_table_cell s end.
Definition begin_table_row (s : st) : st := match fmt s with FX => X.begin_table_row s | FL => L.begin_table_row s | FM => M.begin_table_row s | FK => K.begin_table_row s end.
Definition begin_verse (a : str) (b : str) (s : st) : st := match fmt s with FX => X.begin_verse a b s | FL => L.begin_verse a b s | FM => M.begin_verse a b s | FK => K.begin_verse a b s end.
Definition begin_verse_line (s : st) : st := match fmt s with FX => X.begin_verse_line s | FL => L.begin_verse_line s | FM => M.begin_verse_line s | FK => K.begin_verse_line s end.
Definition cross_reference (a : idinfo) (b : str) (s : st) : st := match fmt s with FX => X.cross_reference a b s | FL => L.cross_reference a b s | FM => M.cross_reference a b s | FK => K.cross_reference a b s end.
Definition desc_name (a : str) (s : st) : st := match fmt s with FX => X.desc_name a s | FL => L.desc_name a s | FM => M.desc_name a s | FK => K.desc_name a s end.
Definition end_desc_list (s : st) : st := match fmt s with FX => X.end_desc_list s | FL => L.end_desc_list s | FM => M.end_desc_list s | FK => K.end_desc_list s end.
Definition end_desc_value (s : st) : st := match fmt s with FX => X.end_desc_value s | FL => L.end_desc_value s | FM => M.end_desc_value s | FK => K.end_desc_value s end.
Definition end_display_block (a : str) (s : st) : st := match fmt s with FX => X.end_display_block a s | FL => L.end_display_block a s | FM => M.end_display_block a s | FK => K.end_display_block a s end.
Definition end_enum_list (s : st) : st := match fmt s with FX => X.end_enum_list s | FL => L.end_enum_list s | FM => M.end_enum_list s | FK => K.end_enum_list s end.
Definition end_item (s : st) : st := match fmt s with FX => X.end_item s | FL => L.end_item s | FM => M.end_item s | FK => K.end_item s end.
Definition end_header (m : str) (numbered : bool) (title : str) (s : st) : st :=
  match fmt s with FX => X.end_header m s | FL => L.end_header m numbered title s | FM => M.end_header m numbered title s | FK => K.end_header m numbered title s end.
Definition end_item_list (s : st) : st := match fmt s with FX => X.end_item_list s | FL => L.end_item_list s | FM => M.end_item_list s | FK => K.end_item_list s end.
Definition end_markup_block (a : str) (b : str) (s : st) : st := match fmt s with FX => X.end_markup_block a b s | FL => L.end_markup_block a b s | FM => M.end_markup_block a b s | FK => K.end_markup_block a b s end.
Definition end_paragraph (a : pbreak) (s : st) : st := match fmt s with FX => X.end_paragraph a s | FL => L.end_paragraph a s | FM => M.end_paragraph a s | FK => K.end_paragraph a s end.
Definition end_stanza (s : st) : st := match fmt s with FX => X.end_stanza s | FL => L.end_stanza s | FM => M.end_stanza s | FK => K.end_stanza s end.
Definition end_table (a : tdata) (s : st) : st := match fmt s with FX => X.end_table a s | FL => L.end_table a s | FM => M.end_table a s | FK => K.end_table a s end.
Definition end_table_cell (s : st) : st := match fmt s with FX => X.end_table_cell s | FL => L.end_table_cell s | FM => M.end_table_cell s | FK => K.end_table_cell s end.
Definition end_table_row (s : st) : st := match fmt s with FX => X.end_table_row s | FL => L.end_table_row s | FM => M.end_table_row s | FK => K.end_table_row s end.
Definition end_verse (s : st) : st := match fmt s with FX => X.end_verse s | FL => L.end_verse s | FM => M.end_verse s | FK => K.end_verse s end.
Definition end_verse_line (s : st) : st := match fmt s with FX => X.end_verse_line s | FL => L.end_verse_line s | FM => M.end_verse_line s | FK => K.end_verse_line s end.
Definition figure_image (a b c d : str) (s : st) : st :=
  match fmt s with FX => X.figure_image a b c d s | FL => L.figure_image a b c d s | FM => M.figure_image a b c d s | FK => K.figure_image a b c d s end.
Definition inline_image (a b c d e : str) (s : st) : st :=
  match fmt s with FX => X.inline_image a b c d e s | FL => L.inline_image a b c d e s | FM => M.inline_image a b c d e s | FK => K.inline_image a b c d e s end.
Definition lk_with_label (a b c : str) (s : st) : st :=
  match fmt s with FX => X.lk_with_label a b c s | FL => L.lk_with_label a b c s | FM => M.lk_with_label a b c s | FK => K.lk_with_label a b c s end.
Definition lk_without_label (a : str) (b : str) (s : st) : st := match fmt s with FX => X.lk_without_label a b s | FL => L.lk_without_label a b s | FM => M.lk_without_label a b s | FK => K.lk_without_label a b s end.
Definition paragraph_title (a : str) (s : st) : st := match fmt s with FX => X.paragraph_title a s | FL => L.paragraph_title a s | FM => M.paragraph_title a s | FK => K.paragraph_title a s end.
Definition table_of_contents (a : popts) (s : st) : st := match fmt s with FX => X.table_of_contents a s | FL => L.table_of_contents a s | FM => M.table_of_contents a s | FK => K.table_of_contents a s end.
Definition format_paragraph (s : st) (t : str) : str :=
  match fmt s with FX => X.format_paragraph s t | FL => L.format_paragraph s t | FM => M.format_paragraph s t | FK => K.format_paragraph s t end.
Definition gen_ref (s : st) (prefix id : str) : str :=
  match fmt s with FX => X.gen_ref_s s prefix id false | FL => L.gen_ref prefix id | FM => M.gen_ref prefix id | FK => K.gen_ref prefix id end.
Definition header_reference (s : st) : str :=
  match fmt s with FX => X.header_reference s | FL => L.header_reference s | FM => M.header_reference s | FK => K.header_reference s end.

(* Xdtag / Xmtag / CheckParamAssignement *)
Definition flow_elems := ["address"; "article"; "aside"; "blockquote"; "div"; "header"; "fieldset"; "figure"; "footer"; "form"; "main"; "nav"; "section"; ""]%string.
Definition phrasing_elems := ["a"; "abbr"; "area"; "audio"; "b"; "bdi"; "bdo"; "br"; "button"; "canvas"; "cite"; "code"; "data"; "datalist"; "del";
  "dfn"; "em"; "embed"; "i"; "iframe"; "img"; "input"; "ins"; "kbd"; "keygen"; "label"; "link"; "map"; "mark"; "math";
  "meta"; "meter"; "noscript"; "object"; "output"; "progress"; "q"; "ruby"; "s"; "samp"; "script"; "select";
  "small"; "span"; "strong"; "sub"; "sup"; "svg"; "template"; "textarea"; "time"; "u"; "var"; "video"; "wbr"; "text"]%string.
(* xhtml checkAttributes: class and id are written by the exporter; one diagnostic per repeated key *)
Fixpoint check_attributes (seen : list str) (pairs : list str) (s : st) : st :=
  match pairs with
  | k :: _ :: r => check_attributes (k :: seen) r (if existsb (str_eqb k) seen then err "in -a option: attribute is reserved or given twice" s else s)
  | _ => s
  end.
Definition xdtag (cmd : str) (pairs : list str) (s : st) : dtag * st :=
  match fmt s with
  | FX => let s := check_attributes [R "class"; R "id"] pairs s in
          (mkDtag cmd pairs, if existsb (fun e => str_eqb cmd (runes e)) flow_elems then s else err "element does not allow all flowing content (warning)" s)
  | FL => (mkDtag cmd pairs, if contains_any tex_name_bad_chars cmd then err "-c option argument should not contain braces or backslashes" s else s)
  | _ => (mkDtag cmd [], s)
  end.
Definition xmtag (cmd : option str) (b e : str) (pairs : list str) (s : st) : mtag * st :=
  match fmt s with
  | FX => let s := check_attributes [R "class"; R "id"] pairs s in
          let c := match cmd with Some (x :: r) => x :: r | _ => R "em" end in
          (mkMtag b c e pairs, if existsb (fun x => str_eqb c (runes x)) phrasing_elems then s else err "not an html phrasing element" s)
  | FL => let c := match cmd with Some (x :: r) => x :: r | _ => R "emph" end in
          (mkMtag b c e pairs, if contains_any tex_name_bad_chars c then err "-c option argument should not contain braces or backslashes" s else s)
  | FM => (mkMtag b (match cmd with Some (x :: r) => x :: r | _ => R "I" end) e [], s)
  | FK => let c := match cmd with Some x => x | None => R "*" end in
          (mkMtag b c e [], if existsb (str_eqb c) [R "*"; R "**"; R "_"; R "__"; R "`"; []] then s else err "not a supported markdown inline markup delimiter" s)
  end.
Definition check_param (param value : str) (s : st) : bool * st :=
  match fmt s with
  | FX =>
      if str_eqb param (R "xhtml-index") then
        (if existsb (str_eqb value) [R "full"; R "summary"; R "none"] then (true, s) else (false, err "xhtml-index parameter:unknown value" s))
      else if str_eqb param (R "epub-version") then
        (if str_eqb value [50] || str_eqb value [51] then (true, s) else (false, err "epub-version parameter should be 2 or 3" s))
      else if str_eqb param (R "xhtml-chap-prefix") then
        (if existsb (N.eqb 47) value || negb (X.id_safe value) then (false, err "xhtml-chap-prefix parameter cannot contain a path separator" s) else (true, s))
      else if str_eqb param (R "xhtml-version") then
        (if str_eqb value [52] || str_eqb value [53] then (true, s) else (false, err "xhtml-version parameter should be 4 or 5" s))
      else (true, s)
  | FL => if str_eqb param (R "latex-variant") then
            (if str_eqb value (R "pdflatex") || str_eqb value (R "xelatex") then (true, s) else (false, err "latex-variant parameter:unknown value" s))
          else (true, s)
  | _ => (true, s)
  end.
