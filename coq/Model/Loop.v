(* process.go, usermacros.go (call), macros.go (If, processInlineMacros): the block loop.
   [step pb] dispatches one block on the pair (control state, rendering state); re-entrant calls (user macro
   bodies, included files) go through [pb], "the loop with less nesting fuel".  [walk] is the structural walk
   over a block list; fuel bounds nesting depth only.  Inline processing of titles ([pim]) is first-order:
   its blocks are text, Bm, Em and Sm only, always dispatched to the builtin handlers. *)
From Coq Require Import List NArith ZArith Bool Lia Arith String.
Import ListNotations.
Require Import Exp Proc1 Proc2 Proc3 Xhtml Ctl.
Require PathClean.
Open Scope N_scope.

Definition is_name (n : str) (m : string) : bool := str_eqb n (runes m).
Definition max_macro_expansions : nat := (100 * 100)%nat.
Definition max_macro_args_size : nat := (100 * 100)%nat.
Definition args_size (a : list arg) : nat := fold_left (fun n x => (n + List.length x)%nat) a 0%nat.
Definition out_of_fuel (cs : cst) : cst := (fst cs, (snd cs) <| panicked := Some (R "out of fuel") |>).

Open Scope string_scope.
Definition specOptIncludeFile := sp [("f", true); ("ns", false); ("as-is", false); ("t", true)].
Close Scope string_scope.

(* ---- what processBlock does around a handler ---- *)
Definition set_regs (b : block) (s : st) : st :=
  match b with
  | BMacro n a l => s <| args := a |> <| macro := n |> <| line := l |> <| has_cur := true |>
  | BText t l => s <| text := t |> <| line := l |> <| has_cur := true |>
  end.
Definition bf_check (n : str) (s0 : st) : st :=
  match bf s0 with
  | Some _ => if is_name n "Ef" || is_name n "#if" || is_name n "#;" then s0 else err "found macro while Bf isn't closed" s0
  | None => s0 end.
Definition is_control_name (n : str) : bool :=
  is_name n "#de" || is_name n "#." || is_name n "#if" || is_name n "#;" || is_name n "#dv" || is_name n "X".
Definition after_handler (n : str) (s1 : st) : st :=
  if elided s1 then s1 <| elided := false |> else if is_control_name n then s1 else s1 <| prev := n |>.
Definition text_block (s0 : st) : st :=
  let s1 := process_text s0 in
  match bf s1 with Some b => if bf_ignore b then s1 else s1 <| prev := [] |> | None => s1 <| prev := [] |> end.
Definition unknown_macro (n : str) (s0 : st) : st := match n with [] => s0 | _ => if process s0 then err "unknown macro" s0 else s0 end.

(* ---- processInlineMacros ---- *)
Definition inline_blocks (a : list arg) (ln : nat) : list block :=
  let blocks :=
    fold_left (fun bl (x : arg) =>
      match x with
      | [] => bl
      | [IText t] => if is_name t "Bm" || is_name t "Em" || is_name t "Sm" then bl ++ [BMacro t [] ln]
                     else match rev bl with
                          | [] => [BText x ln]
                          | BMacro n ar l :: r => rev r ++ [BMacro n (ar ++ [x]) l]
                          | BText t0 l :: r => rev r ++ [BText (match t0 with [] => x | _ => t0 ++ [IText [32]] ++ x end) l]
                          end
      | _ => match rev bl with
             | [] => [BText x ln]
             | BMacro n ar l :: r => rev r ++ [BMacro n (ar ++ [x]) l]
             | BText t0 l :: r => rev r ++ [BText (match t0 with [] => x | _ => t0 ++ [IText [32]] ++ x end) l]
             end
      end) a [] in
  match blocks with [] => [BText [] ln] | _ => blocks end.
Definition inline_builtin (n : str) : option (st -> st) :=
  if is_name n "Bm" then Some macro_bm else if is_name n "Em" then Some macro_em else if is_name n "Sm" then Some macro_sm else None.
Definition inline_step (b : block) (s : st) : st :=
  let s0 := set_regs b s in
  match b with
  | BText _ _ => text_block s0
  | BMacro n _ _ => match inline_builtin n with
                    | Some h => after_handler n (h (bf_check n s0))
                    | None => unknown_macro n s0
                    end
  end.
Fixpoint inline_walk (bs : list block) (s : st) : st :=
  match bs with
  | [] => s
  | b :: rest => let s1 := inline_step b s in match panicked s1 with Some _ => s1 | None => inline_walk rest s1 end
  end.
Definition pim : PIM := fun (a : list arg) (s : st) =>
  let blocks := inline_blocks a (line s) in
  let s1 := (if negb (process s) then s <| quiet := true |> else s)
              <| buf := [] |> <| ws := false |> <| inl := true |> <| par := true |> <| process := true |> <| has_cur := true |> <| sinline := [] |> in
  let s2 := inline_walk blocks s1 in
  let s3 := close_unclosed_inline s2 in
  (flat (buf s3), s3 <| buf := buf s |> <| macro := macro s |> <| args := args s |> <| ws := ws s |> <| inl := false |>
              <| par := par s |> <| process := process s |> <| quiet := false |> <| has_cur := has_cur s |> <| line := line s3 |> <| sinline := sinline s |>).

(* SearchIncFile: the name itself, else the first FRUNDISLIB directory that has it *)
Definition search_inc_file (name : str) (c : ctl) : str * bool :=
  if is_file name c then (name, true) else
  match find (fun d => is_file (PathClean.join [d; name]) c) (libdirs c) with
  | Some d => (PathClean.join [d; name], true)
  | None => (name, false)
  end.

(* macroIncludeFile *)
Definition macro_include (pb : list block -> cst -> cst) (cs : cst) : cst :=
  let '(c, s) := cs in
  let '(o, s1) := parse_opts specOptIncludeFile (args s) s in
  let '(skip, s2) := match opt "f" o with
                     | Some f => let '(fs, s') := formats_of f s1 in
                                 let s'' := if process s' then check_formats fs s' else s' in (not_export_format fs s'', s'')
                     | None => (false, s1) end in
  if skip then (c, s2 <| elided := true |>) else
  match po_args o with
  | [] => (c, if process s2 then err "filename argument required" s2 else s2)
  | a0 :: _ =>
    let '(name, s3) := inlines_text a0 s2 in
    if flag "as-is" o then
      if negb (process s3) then (c, s3) else
      let s4 := if par s3 then (begin_phrasing (flag "ns" o) s3) <| ws := true |> else s3 in
      match fs_get name c with
      | None => (c, err "as-is inclusion: no such file" s4)
      | Some src =>
        let '(t, (c5, s5)) := match opt "t" o with
                              | Some tg => let '(tag, s') := inlines_text tg s4 in
                                           match apply_filter tag src (c, s') with
                                           | Some r => r
                                           | None => (src, (c, err "unknown tag" s'))
                                           end
                              | None => (src, (c, s4)) end in
        (c5, w t s5)
      end
    else
      let '(path, found) := search_inc_file name c in
      if negb found then (c, if process s3 then err "no such frundis source file" s3 else s3) else
      if existsb (str_eqb (PathClean.clean path)) (incstack c) then (c, if process s3 then err "recursive inclusion" s3 else s3) else
      match fs_get path c with
      | None => (c, s3)
      | Some src =>
        let '(bs, e) := parse src in
        match e with
        | Some _ => (c, err "parse error" s3)
        | None =>
          let s4 := s3 <| cfile := path |> <| has_cur := (match bs with [] => false | _ => true end) |> in
          let '(c5, s5) := pb bs (set_incstack (incstack c ++ [PathClean.clean path]) c, s4) in
          (set_incstack (incstack c) c5, s5 <| cfile := cfile s3 |> <| has_cur := has_cur s3 |>)
        end
      end
  end.

(* processUserMacro *)
Definition user_macro (pb : list block -> cst -> cst) (m : umdef) (n : str) (l : nat) (cs : cst) : cst :=
  let '(c, s0) := cs in
  if Nat.ltb 42 (cdepth c) then (c, if process s0 then err "recursive macro: too much depth" s0 else s0) else
  if Nat.leb max_macro_expansions (xcount c) then
    (set_budget (xcount c) true c, if process s0 && negb (xexh c) then err "recursive macro: too many expansions" s0 else s0)
  else
  let c := set_budget (S (xcount c)) (xexh c) c in
  if Nat.ltb max_macro_args_size (args_size (args s0)) then (c, if process s0 then err "recursive macro: arguments too large" s0 else s0) else
  let sq := if negb (process s0) then s0 <| quiet := true |> else s0 in
  let '(o, sa) := parse_opts (um_opts m) (args sq) sq in
  let sb := if negb (process sa) then sa <| quiet := false |> else sa in
  let sc := if negb (um_list m) && Nat.ltb (um_argsc m) (List.length (po_args o)) && process sb then err "too many arguments" sb else sb in
  let '(blocks, sd) :=
    if Nat.ltb 0 (um_argsc m) || um_list m || negb (Nat.eqb (List.length (um_opts m)) 0) then
      fold_left (fun '(acc, s) b0 => let '(b1, s') := subst_block (um_argsc m) (po_args o) (po_opts o) (po_flags o) b0 s in (acc ++ [b1], s'))
                (um_blocks m) ([], sc)
    else (um_blocks m, sc) in
  let se := if Nat.eqb (cdepth c) 0 then sd <| cloc := Some (l, n, cfile sd) |> else sd in
  let '(cf, sf) := pb blocks (set_cdepth (S (cdepth c)) c, se <| has_cur := true |> <| cfile := um_file m |>) in
  let cg := set_cdepth (Nat.pred (cdepth cf)) cf in
  let sg := sf <| has_cur := has_cur s0 |> <| cfile := cfile s0 |> in
  if Nat.eqb (cdepth cg) 0 then (set_budget 0 false cg, sg <| cloc := None |>) else (cg, sg).

(* the rendering and declaration macros: functions of the rendering state alone *)
Definition builtin (n : str) : option (st -> st) :=
  if is_name n "Bd" then Some macro_bd else if is_name n "Bf" then Some macro_bf
  else if is_name n "Bl" then Some (macro_bl pim) else if is_name n "Bm" then Some macro_bm
  else if is_name n "Ch" || is_name n "Pt" || is_name n "Sh" || is_name n "Ss" then Some (macro_header pim)
  else if is_name n "D" then Some macro_d else if is_name n "Ed" then Some macro_ed
  else if is_name n "El" then Some macro_el
  else if is_name n "Em" then Some macro_em
  else if is_name n "Im" then Some macro_im else if is_name n "It" then Some (macro_it pim)
  else if is_name n "Lk" then Some (macro_lk pim) else if is_name n "P" then Some (macro_p pim)
  else if is_name n "Sm" then Some macro_sm else if is_name n "Sx" then Some (macro_sx pim)
  else if is_name n "Ta" then Some (macro_ta pim) else if is_name n "Tc" then Some macro_tc
  else if is_name n "X" then Some macro_x
  else if is_name n "#de" then Some macro_def_start else if is_name n "#." then Some macro_def_end
  else if is_name n "#if" then Some macro_if_start else if is_name n "#;" then Some macro_if_end
  else if is_name n "#dv" then Some macro_def_var
  else None.
(* the four macros that see the control state *)
Definition control_builtin (pb : list block -> cst -> cst) (n : str) : option (cst -> cst) :=
  if is_name n "Ef" then Some macro_ef else if is_name n "Ft" then Some macro_ft
  else if is_name n "If" then Some (macro_include pb) else if is_name n "#run" then Some macro_run
  else None.

(* processBlock *)
Definition step (pb : list block -> cst -> cst) (b : block) (cs : cst) : cst :=
  let '(c, s) := cs in
  let s0 := set_regs b s in
  if Nat.ltb 0 (ifdepth s0) then
    (c, match b with
        | BMacro n _ _ => if is_name n "#;" then macro_if_end s0 else if is_name n "#if" then macro_if_start s0 else s0
        | _ => s0
        end)
  else match udef s0 with
  | Some d =>
    let record := s0 <| udef := Some (mkUm (um_line d) (um_name d) (um_ignore d) 0 [] (um_blocks d ++ [b]) false (um_file d)) |> in
    (c, match b with
        | BMacro n _ _ =>
            if is_name n "#." then macro_def_end s0
            else if is_name n "#de" then macro_def_start s0
            else if um_ignore d then s0 else record
        | BText _ _ => if um_ignore d then s0 else record
        end)
  | None =>
    match b with
    | BText _ _ => (c, text_block s0)
    | BMacro n a l =>
      match (if inl s0 then None else assoc n (umacros s0)) with
      | Some m => user_macro pb m n l (c, s0)
      | None =>
        match control_builtin pb n with
        | Some h => let '(c1, s1) := h (c, bf_check n s0) in (c1, after_handler n s1)
        | None =>
          match builtin n with
          | Some h => (c, after_handler n (h (bf_check n s0)))
          | None => (c, unknown_macro n s0)
          end
        end
      end
    end
  end.

Definition walk (pb : list block -> cst -> cst) : list block -> cst -> cst :=
  fix loop (bs : list block) (cs : cst) : cst :=
    match bs with
    | [] => cs
    | b :: rest => let cs1 := step pb b cs in match panicked (snd cs1) with Some _ => cs1 | None => loop rest cs1 end
    end.

Fixpoint run_blocks (depth : nat) : list block -> cst -> cst :=
  match depth with
  | O => fun _ cs => out_of_fuel cs
  | S d => walk (run_blocks d)
  end.

(* ---- ProcessFrundisSource: two passes over the same blocks, then the end-of-file sweep ---- *)
Definition init_st : st :=
  mkSt [] [] [] 0 [] false false false false false false false [] [] [] None [] [] []
       (mkToc false false 0 0 0 0 0 0 0 0 0) [] [] [] [] [] [] []
       0 0 0 0 [] [] false false [] 0 false 0 [] []
       [(R "xhtml-index", R "full"); (R "lang", R "en")] [] []
       0 None [] [] None [] false false (R "xhtml") [] false false 0%Z [] [] [] 0 [] [] [] [] None.

Definition reset (s : st) : st :=
  init_st <| format := format s |> <| existing := existing s |> <| urls := urls s |> <| filters := filters s |>
          <| cfile := cfile s |>
          <| mode := mode s |> <| dtags := dtags s |> <| ids := ids s |> <| images := images s |> <| mtags := mtags s |> <| params := params s |>
          <| lox_toc := lox_toc s |> <| lox_nav := lox_nav s |> <| lox_lof := lox_lof s |> <| lox_lot := lox_lot s |> <| lox_lop := lox_lop s |>
          <| toc := reset_counters (toc s) |> <| tinfo := tinfo s |> <| diags := diags s |> <| process := true |>.

(* exporter Reset (after the context reset) and PostProcessing, for XHTML standalone / multi-file *)
Definition exp_reset (s : st) : st :=
  match fmt s, mode s with
  | FX, 1%nat => X.title_page (wo (X.doc_header (X.param "document-title" s) s) s)
  | FX, 2%nat =>
      let s1 := X.title_page (wo (X.doc_header (X.param "document-title" s) s) (s <| curfile := R "index.html" |>)) in
      let idx := X.param "xhtml-index" s1 in
      if str_eqb idx (R "full") then X.write_toc (mkPo [] [] []) s1
      else if str_eqb idx (R "summary") then X.write_toc (mkPo [] [R "summary"] []) s1 else s1
  | FX, 3%nat =>
      let s1 := X.epub_gen s in
      X.title_page (wo (X.doc_header (X.param "document-title" s1) s1) (s1 <| curfile := R "EPUB/index.xhtml" |>))
  | _, _ => s
  end.
Definition exp_post (s : st) : st :=
  match fmt s, mode s with
  | FX, 1%nat => wo X.doc_footer s
  | FX, 2%nat => wo X.doc_footer (match navtext s with [] => s | n => wo n s end)
  | FX, 3%nat => wo X.doc_footer s
  | _, _ => s
  end.

Record world := mkWorld { w_existing : list str; w_fs : list (str * str); w_libdirs : list str; w_unrestricted : bool; w_urls : list (str * option str) }.

Definition nesting_fuel (wd : world) : nat := (64 + List.length (w_fs wd))%nat.

Definition eof_sweep (s2 : st) : st :=
  let s3 := s2 <| has_cur := false |> <| macro := R "End Of File" |> in
  let s4 := close_unclosed_block (end_par PNormal (close_unclosed_inline s3)) in
  let s5 := fold_left (fun a sc => warn_unclosed sc a) (rev (sif s4)) s4 in
  let s6 := match bf s5 with Some _ => err "found End Of File while Bf isn't closed" s5 | None => s5 end in
  match udef s6 with Some _ => err "found End Of File while #de isn't closed" s6 | None => s6 end.

Definition start_ctl (wd : world) (main : str) : ctl :=
  mkCtl (w_unrestricted wd) [] 0 0 false [PathClean.clean main] (w_fs wd) (w_libdirs wd).
Definition start_st (fmtname : str) (md : nat) (wd : world) (main : str) : st :=
  init_st <| format := fmtname |> <| mode := md |> <| existing := w_existing wd |> <| urls := w_urls wd |> <| cfile := main |>
          <| params := (if str_eqb fmtname (R "xhtml") || str_eqb fmtname (R "epub") then [(R "xhtml-index", R "full"); (R "lang", R "en")] else [(R "lang", R "en")]) |>.

(* the result: rendering state at the end, and the control state (with the log of commands started) *)
Definition compile (fuel : nat) (fmtname : str) (md : nat) (wd : world) (main : str) (bs : list block) : cst :=
  let '(c1, s1) := run_blocks fuel bs (start_ctl wd main, start_st fmtname md wd main) in
  match panicked s1 with Some _ => (c1, s1) | None =>
  let '(c2, s2) := run_blocks fuel bs (set_budget 0 false c1, exp_reset (reset s1)) in
  match panicked s2 with Some _ => (c2, s2) | None =>
  let s8 := exp_post (eof_sweep s2) in
  (c2, s8 <| files ::= fun l => l ++ [(curfile s8, flat (wout s8))] |>)
  end end.

(* main is the path of the main source in the world's file system *)
Definition compile_source_c (fmtname : str) (md : nat) (wd : world) (main : str) : cst :=
  let c0 := start_ctl wd main in
  match assoc main (w_fs wd) with
  | None => (c0, init_st <| panicked := Some (R "no such file") |>)
  | Some src =>
    let '(bs, e) := parse src in
    match e with
    | Some _ => (c0, init_st <| panicked := Some (R "parse error") |>)
    | None => compile (nesting_fuel wd) fmtname md wd main bs
    end
  end.
Definition compile_source (fmtname : str) (md : nat) (wd : world) (main : str) : st := snd (compile_source_c fmtname md wd main).
Definition commands_started (fmtname : str) (md : nat) (wd : world) (main : str) : list (list str) := rev (execs (fst (compile_source_c fmtname md wd main))).
