(* Scratch prototype, Tier 3 slice: processor state (single record for now; the two-sorted split comes with the proofs) *)
From Coq Require Import List NArith ZArith Bool Lia Arith String Ascii.
Import ListNotations.
From RecordUpdate Require Import RecordSet.
Export RecordSetNotations.
Require Export Scan MBase.
Open Scope N_scope.

Fixpoint runes (s : string) : str :=
  match s with EmptyString => [] | String c r => N_of_ascii c :: runes r end.
Notation "'R' s" := (runes s%string) (at level 5, s at level 0).

Definition arg := list inline.

Record scope := mkScope { sc_macro : str; sc_tag : str; sc_id : str; sc_req : bool; sc_line : nat; sc_inuser : bool }.
Record lox := mkLox { lx_count : nat; lx_macro : str; lx_nonum : bool; lx_num : str; lx_ref : str; lx_prefix : str; lx_title : str; lx_id : str }.
Record idinfo := mkId { id_ref : str; id_name : str; id_type : nat }.   (* 0 NoID 1 Sm 2 Bd 3 InlineIm 4 Figure 5 Header 6 Poem 7 Table 8 UntitledList *)
Record tdata := mkTd { td_title : str; td_cols : nat; td_id : str }.
Record mtag := mkMtag { mt_begin : str; mt_cmd : str; mt_end : str; mt_pairs : list str }.
Record dtag := mkDtag { dt_cmd : str; dt_pairs : list str }.
Record tocinfo := mkToc { hasPart : bool; hasChapter : bool; hcount : nat; pcount : nat; ccount : nat; scount : nat; sscount : nat;
                          pnum : nat; cnum : nat; snum : nat; ssnum : nat }.
Record umdef := mkUm { um_line : nat; um_name : str; um_ignore : bool; um_argsc : nat; um_opts : list (str * bool); (* true = ArgOption *)
                       um_blocks : list block; um_list : bool; um_file : str }.
(* X ftag: -gsub pairs, -shell command (the -regexp form is not modelled: regexp would be one more oracle) *)
Inductive ufilter := FGsub (pairs : list (str * str)) | FShell (cmd : list str).
Record bfinfo := mkBf { bf_tag : str; bf_ignore : bool; bf_inuser : bool; bf_line : nat }.
(* a diagnostic, projected: line (None = end of file / no block), calling user macro if any, macro register, kind *)
Record diag := mkDiag { d_file : str; d_line : option nat; d_user : option str; d_macro : str; d_kind : str }.

Record st := mkSt {
  (* dispatch registers *)
  macro : str; args : list arg; prev : str; line : nat; text : list inline;
  (* flags *)
  process : bool; quiet : bool; inl : bool; asis : bool; par : bool; verse : bool; ws : bool;
  (* buffers *)
  buf : list str; wout : list str;      (* written chunks, newest first: the text is [flat] of them *)
  raw : str; bf : option bfinfo;
  (* scopes *)
  sblock : list scope; sinline : list scope; sif : list scope;          (* top of stack = last element, as in Go *)
  (* counters and collected information *)
  toc : tocinfo; lox_toc : list lox; lox_nav : list lox; lox_lof : list lox; lox_lot : list lox; lox_lop : list lox;
  ids : list (str * idinfo); images : list str;
  tcell : nat; tcount : nat; ttit : nat; tcols : nat; tid : str; ttitle : str; tscope : bool; ttitscope : bool; tinfo : list tdata;
  fig : nat; vused : bool; vcount : nat; cid : str; cidx : str;
  params : list (str * str); dtags : list (str * dtag); mtags : list (str * mtag);
  (* control *)
  ifdepth : nat; udef : option umdef; umacros : list (str * umdef); ivars : list (str * str);
  cloc : option (nat * str * str);                    (* line, name and file of the outermost user-macro invocation *)
  cfile : str;                                        (* current file *)
  has_cur : bool;                                     (* ctx.loc has a current block (false at end of file) *)
  elided : bool;                                      (* last macro was elided because of a format restriction *)
  format : str;
  (* exporter-private state *)
  fontstack : list str; xverse : bool; incell : bool; nesting : Z;
  (* the world: which files exist (os.Stat); frundis sources by path; FRUNDISLIB directories; -x *)
  filters : list (str * ufilter);                      (* user filters declared by X ftag *)
  existing : list str;
  urls : list (str * option str);                     (* oracle: url.Parse(u).String() for the urls of the document; None = parse error *)
  (* output mode and files: 0 fragment to one file, 1 standalone single file, 2 multi-file directory *)
  mode : nat; files : list (str * str); curfile : str; navtext : str;
  (* log *)
  diags : list diag; panicked : option str
}.
#[export] Instance eta_st : Settable _ := settable! mkSt
  <macro; args; prev; line; text; process; quiet; inl; asis; par; verse; ws; buf; wout; raw; bf; sblock; sinline; sif;
   toc; lox_toc; lox_nav; lox_lof; lox_lot; lox_lop; ids; images;
   tcell; tcount; ttit; tcols; tid; ttitle; tscope; ttitscope; tinfo; fig; vused; vcount; cid; cidx;
   params; dtags; mtags; ifdepth; udef; umacros; ivars; cloc; cfile; has_cur; elided; format; fontstack; xverse; incell; nesting; filters; existing; urls; mode; files; curfile; navtext; diags; panicked>.
#[export] Instance eta_toc : Settable _ := settable! mkToc <hasPart; hasChapter; hcount; pcount; ccount; scount; sscount; pnum; cnum; snum; ssnum>.

(* ctx.Error: respects quiet; location from the outermost user-macro call if any, else the current block *)
Definition err (kind : string) (s : st) : st :=
  if quiet s then s else
  let d := match cloc s with
           | Some (l, n, f) => mkDiag f (Some l) (Some n) (macro s) (runes kind)
           | None => mkDiag (cfile s) (if has_cur s then Some (line s) else None) None (macro s) (runes kind)
           end in
  s <| diags ::= cons d |>.      (* newest first; [diagnostics] gives them in order *)

Definition diagnostics (s : st) : list diag := rev_append (diags s) [].

(* ctx.W(): paragraph buffer while in a paragraph, the output writer otherwise *)
Definition flat (l : list str) : str := fold_left (fun acc x => x ++ acc) l [].
Definition w (x : str) (s : st) : st := if par s then s <| buf ::= cons x |> else s <| wout ::= cons x |>.
Definition wo (x : str) (s : st) : st := s <| wout ::= cons x |>.

Definition top {A} (l : list A) : option A := last (map Some l) None.
Definition pop {A} (l : list A) : list A := removelast l.
