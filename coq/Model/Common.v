(* Scratch prototype, Tier 3 slice: definitions shared by the exporters *)
From Coq Require Import List NArith ZArith Bool Lia Arith String.
Import ListNotations.
Require Import St Text.
Open Scope N_scope.

Definition NLs : str := [10].
Definition idattr (id : str) : str := match id with [] => [] | _ => R " id=""" ++ id ++ R """" end.

Fixpoint pairs_attrs (p : list str) : str :=
  match p with
  | k :: v :: r => R " " ++ html_escape k ++ R "=""" ++ html_escape v ++ R """" ++ pairs_attrs r
  | _ => []
  end.

Definition truthy (v : option str) : bool := match v with Some x => negb (str_eqb x [] || str_eqb x [48]) | None => false end.

(* TocInfo *)
Definition header_level (t : tocinfo) (m : str) : option nat :=       (* Go's level + 1, to stay in nat *)
  let base := (if hasPart t then 2 else if hasChapter t then 1 else 0)%nat in
  if str_eqb m (R "Pt") then Some base
  else if str_eqb m (R "Ch") then Some (base + 1)%nat
  else if str_eqb m (R "Sh") then Some (base + 2)%nat
  else if str_eqb m (R "Ss") then Some (base + 3)%nat
  else None.
(* the printed level is header_level - 1 + ... : Go's level starts at -1/0/1; we keep Go's value as (ours - 1) where ours >= 0.
   For Pt without parts Go gives -1: printed as h-1; we print via Z-free trick below *)
Definition level_str (t : tocinfo) (m : str) : str :=
  match header_level t m with
  | Some (S n) => dec n
  | Some O => R "-1"
  | None => R "?"
  end.
Definition header_num (t : tocinfo) (m : str) (nonum : bool) : str :=
  if nonum then [] else
  if str_eqb m (R "Pt") then dec (pnum t)
  else if str_eqb m (R "Ch") then dec (cnum t)
  else if str_eqb m (R "Sh") then (if hasChapter t then dec (cnum t) ++ R "." ++ dec (snum t) else dec (snum t))
  else if str_eqb m (R "Ss") then (if hasChapter t then dec (cnum t) ++ R "." ++ dec (snum t) ++ R "." ++ dec (ssnum t)
                                   else dec (snum t) ++ R "." ++ dec (ssnum t))
  else [].
Definition update_headers (m : str) (nonum : bool) (t : tocinfo) : tocinfo :=
  let bump (n : nat) := if nonum then n else S n in
  let t1 :=
    if str_eqb m (R "Pt") then t <| pcount ::= S |> <| pnum ::= bump |> <| scount := 0%nat |> <| snum := 0%nat |> <| sscount := 0%nat |> <| ssnum := 0%nat |>
    else if str_eqb m (R "Ch") then t <| ccount ::= S |> <| cnum ::= bump |> <| scount := 0%nat |> <| snum := 0%nat |> <| sscount := 0%nat |> <| ssnum := 0%nat |>
    else if str_eqb m (R "Sh") then t <| scount ::= S |> <| snum ::= bump |> <| sscount := 0%nat |> <| ssnum := 0%nat |>
    else if str_eqb m (R "Ss") then t <| sscount ::= S |> <| ssnum ::= bump |>
    else t in
  t1 <| hcount ::= S |>.
Definition reset_counters (t : tocinfo) : tocinfo :=
  t <| hcount := 0%nat |> <| pcount := 0%nat |> <| ccount := 0%nat |> <| scount := 0%nat |> <| sscount := 0%nat |>
    <| pnum := 0%nat |> <| cnum := 0%nat |> <| snum := 0%nat |> <| ssnum := 0%nat |>.


Inductive pbreak := PNormal | PBlock | PItem | PForced.
(* url.Parse(u).String() is an oracle: the world supplies its value for the urls of the document (computed by net/url
   in the harness); urls it does not list are those on which it is the identity.  [with_url u k]: continue with the
   normalised url, or report it and continue with the empty string, as the exporters do. *)
Definition url_norm (s : st) (u : str) : option str := match assoc u (urls s) with Some r => r | None => Some u end.
Definition with_url (u : str) (k : str -> st -> st) (s : st) : st :=
  match url_norm s u with Some n => k n s | None => k [] (err "invalid url or path" s) end.
Definition set_panic (m : string) (s : st) : st := match panicked s with Some _ => s | None => s <| panicked := Some (runes m) |> end.
Definition spaces2 (n : nat) : str := List.concat (List.repeat (R "  ") n).
