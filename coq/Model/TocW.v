(* Scratch prototype: exporter/xhtml/utils.go writeTOC (xhtml dialect), nesting only *)
From Coq Require Import List Bool Lia Arith.
Import ListNotations.

Inductive kind := Pt | Ch | Sh | Ss.
Inductive ev := UL | CUL | LI | CLI.

(* HeaderLevel *)
Definition hlevel (hasPart hasChap : bool) (k : kind) : nat :=
  let base := if hasPart then 2 else if hasChap then 1 else 0 in   (* level+1 to stay in nat: Pt=base-1 ... *)
  match k with Pt => base - 1 | Ch => base | Sh => base + 1 | Ss => base + 2 end.
(* note: Go computes level = -1/0/1 then adds 0/1/2/3; we add 1 everywhere; only differences matter *)

Record lst := { level : nat; prev : nat; out : list ev }.

(* one selected entry, as in the unchanged tree *)
Definition entry_step (tl : nat) (s : lst) : lst :=
  let s1 :=
    if Nat.eqb (level s) 0 then {| level := 1; prev := tl; out := out s |}
    else if Nat.ltb (prev s) tl then
      {| level := level s + (tl - prev s); prev := tl; out := out s ++ [UL] |}
    else if Nat.ltb tl (prev s) then
      (* diference = tl - prev (negative); clipped so that level + diference >= 1 *)
      let d := Nat.min (prev s - tl) (level s - 1) in
      {| level := level s - d; prev := tl; out := out s ++ [CLI] ++ flat_map (fun _ => [CUL; CLI]) (seq 0 d) |}
    else {| level := level s; prev := tl; out := out s ++ [CLI] |} in
  {| level := level s1; prev := prev s1; out := out s1 ++ [LI] |}.

Definition finish (s : lst) : list ev :=
  out s ++ (if Nat.ltb 0 (level s) then [CLI] else []) ++ flat_map (fun _ => [CUL; CLI]) (seq 0 (level s - 1)) ++ [CUL].

Definition write_toc (levels : list nat) : list ev :=
  finish (fold_left (fun s tl => entry_step tl s) levels {| level := 0; prev := 1; out := [UL] |}).

(* repaired: one list is opened, so the depth grows by one *)
Definition entry_step_fixed (tl : nat) (s : lst) : lst :=
  let s1 :=
    if Nat.eqb (level s) 0 then {| level := 1; prev := tl; out := out s |}
    else if Nat.ltb (prev s) tl then
      {| level := S (level s); prev := tl; out := out s ++ [UL] |}
    else if Nat.ltb tl (prev s) then
      let d := Nat.min (prev s - tl) (level s - 1) in
      {| level := level s - d; prev := tl; out := out s ++ [CLI] ++ flat_map (fun _ => [CUL; CLI]) (seq 0 d) |}
    else {| level := level s; prev := tl; out := out s ++ [CLI] |} in
  {| level := level s1; prev := prev s1; out := out s1 ++ [LI] |}.
Definition write_toc_fixed (levels : list nat) : list ev :=
  finish (fold_left (fun s tl => entry_step_fixed tl s) levels {| level := 0; prev := 1; out := [UL] |}).

(* balance: a stack machine on ul / li *)
Inductive tg := TUL | TLI.
Definition step (st : option (list tg)) (e : ev) : option (list tg) :=
  match st with None => None | Some s =>
    match e with
    | UL => Some (TUL :: s)
    | LI => Some (TLI :: s)
    | CUL => match s with TUL :: s' => Some s' | _ => None end
    | CLI => match s with TLI :: s' => Some s' | _ => None end
    end end.
Definition runs st es := fold_left step es st.
Arguments runs : simpl never.
Definition balanced es := runs (Some []) es = Some [].

Lemma runs_app a b st : runs st (a ++ b) = runs (runs st a) b.
Proof. unfold runs. apply fold_left_app. Qed.

(* D4: Pt, Sh, Ch with parts: levels 1,3,2 *)
Example D4_refuted : balanced (write_toc [1; 3; 2]) -> False.
Proof. vm_compute. discriminate. Qed.
Example D4_fixed_ok : balanced (write_toc_fixed [1; 3; 2]).
Proof. vm_compute. reflexivity. Qed.

(* the open stack when depth is n >= 1 and an item is open: n times (li inside ul) *)
Fixpoint stack_of (n : nat) : list tg := match n with O => [] | S m => TLI :: TUL :: stack_of m end.

Lemma runs_close d : forall n, runs (Some (TUL :: stack_of (d + n))) (flat_map (fun _ => [CUL; CLI]) (seq 0 d)) = Some (TUL :: stack_of n).
Proof.
  intros n. assert (G : forall k, runs (Some (TUL :: stack_of (d + n))) (flat_map (fun _ => [CUL; CLI]) (seq k d)) = Some (TUL :: stack_of n)).
  { induction d as [|d IH]; intros k; [reflexivity|]. cbn [seq flat_map]. rewrite runs_app.
    change (runs (Some (TUL :: stack_of (S d + n))) [CUL; CLI]) with (Some (TUL :: stack_of (d + n))). apply IH. }
  apply G.
Qed.

Definition Inv (s : lst) : Prop :=
  (level s = 0 /\ runs (Some []) (out s) = Some [TUL]) \/
  (level s >= 1 /\ runs (Some []) (out s) = Some (stack_of (level s))).

Lemma Inv_step tl s : Inv s -> Inv (entry_step_fixed tl s) /\ level (entry_step_fixed tl s) >= 1.
Proof.
  intros [[H0 Hr]|[H1 Hr]]; unfold entry_step_fixed.
  - rewrite H0. cbn [Nat.eqb level prev out]. split; [|cbn; lia]. right. split; [cbn; lia|]. cbn [level out]. rewrite runs_app, Hr. reflexivity.
  - destruct (Nat.eqb_spec (level s) 0); [lia|]. destruct (Nat.ltb_spec (prev s) tl).
    + cbn [level prev out]. split; [|cbn; lia]. right. split; [cbn; lia|]. cbn [level prev out]. rewrite !runs_app, Hr. reflexivity.
    + destruct (Nat.ltb_spec tl (prev s)); cbn [level prev out].
      * set (d := Nat.min (prev s - tl) (level s - 1)). assert (Hd : d <= level s - 1) by apply Nat.le_min_r.
        split; [|cbn; lia]. right. split; [cbn; lia|]. cbn [level prev out]. rewrite !runs_app, Hr.
        destruct (level s) as [|m] eqn:El; [lia|]. cbn [stack_of].
        change (runs (Some (TLI :: TUL :: stack_of m)) [CLI]) with (Some (TUL :: stack_of m)).
        assert (Hm : m = d + (m - d)) by lia. rewrite Hm at 1. rewrite runs_close.
        replace (S m - d) with (S (m - d)) by lia. reflexivity.
      * split; [|cbn; lia]. right. split; [cbn; lia|]. cbn [level prev out]. rewrite !runs_app, Hr.
        destruct (level s) as [|m]; [lia|]. reflexivity.
Qed.

Theorem write_toc_fixed_balanced levels : balanced (write_toc_fixed levels).
Proof.
  unfold write_toc_fixed, balanced, finish.
  assert (G : forall s, Inv s -> Inv (fold_left (fun s tl => entry_step_fixed tl s) levels s)).
  { induction levels as [|tl r IH]; intros s H; [exact H|]. cbn [fold_left]. apply IH, Inv_step, H. }
  set (s0 := {| level := 0; prev := 1; out := [UL] |}).
  assert (I0 : Inv s0) by (left; split; reflexivity).
  specialize (G s0 I0). set (s := fold_left _ levels s0) in *.
  destruct G as [[H0 Hr]|[H1 Hr]]; rewrite !runs_app, Hr.
  - rewrite H0. reflexivity.
  - destruct (level s) as [|m] eqn:El; [lia|]. cbn [Nat.ltb Nat.leb stack_of].
    change (runs (Some (TLI :: TUL :: stack_of m)) [CLI]) with (Some (TUL :: stack_of m)).
    replace (S m - 1) with m by lia. assert (Hm : m = m + 0) by lia. rewrite Hm at 1. rewrite runs_close. reflexivity.
Qed.
Print Assumptions write_toc_fixed_balanced.
