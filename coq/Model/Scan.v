(* Scratch prototype: faithful model of scanner/scanner.go and parser/parser.go *)
From Coq Require Import List NArith Bool Lia.
Require Unicode.
Import ListNotations.
Open Scope N_scope.

Definition rune := N.
Definition str := list rune.
Definition NL : rune := 10. Definition DOT : rune := 46. Definition BS : rune := 92. Definition DQ : rune := 34.

(* unicode.IsSpace for the prototype (the real table is generated) *)
(* unicode.IsSpace: the toolchain's White_Space table, regenerated into Gen/Tables.v *)
Definition is_space (c : rune) : bool := Unicode.is_space c.

Inductive sstate := BlockStart | QuotedArg | NewArg | ArgEnd | ArgMore | CommentLine | MacroName | TextBlock | SEnd.
Inductive token := ESCAPE | IESCAPE | AESCAPE | NAESCAPE | NFESCAPE | TEXT | MACRO_NAME | MACRO_END | ARG_END | COMMENT | EXTEND_LINE | ILLEGAL | EOF.

Definition sstate_eqb (a b : sstate) : bool :=
  match a, b with
  | BlockStart, BlockStart | QuotedArg, QuotedArg | NewArg, NewArg | ArgEnd, ArgEnd | ArgMore, ArgMore
  | CommentLine, CommentLine | MacroName, MacroName | TextBlock, TextBlock | SEnd, SEnd => true
  | _, _ => false
  end.

(* scanner position: head of the list is the current character s.ch; [] is EOF (s.ch = -1) *)
Definition sc := (sstate * list rune)%type.
Definition adv (s : sc) : sc :=              (* s.next(): reaching EOF sets the state to SEnd *)
  match snd s with
  | [] => (SEnd, [])
  | _ :: [] => (SEnd, [])
  | _ :: r => (fst s, r)
  end.
Definition cur (s : sc) : option rune := hd_error (snd s).
Definition st_of (s : sc) := fst s.
Definition set_state (st : sstate) (s : sc) : sc := (st, snd s).
Definition fuel_of (s : sc) : nat := S (length (snd s)).
Definition is_c (c : rune) (o : option rune) : bool := match o with Some d => d =? c | None => false end.

Fixpoint skip_ws_f (fuel : nat) (s : sc) : sc :=
  match fuel with O => s | S f =>
    match cur s with
    | Some c => if is_space c && negb (c =? NL) then skip_ws_f f (adv s) else s
    | None => s
    end end.
Definition skip_ws s := skip_ws_f (fuel_of s) s.

Fixpoint skip_line_f (fuel : nat) (s : sc) : sc :=
  match fuel with O => s | S f =>
    match cur s with
    | Some c => if c =? NL then s else skip_line_f f (adv s)
    | None => s
    end end.
Definition skip_line s := skip_line_f (fuel_of s) s.

(* scanComment, s.ch == DQ *)
Fixpoint until_nl_f (fuel : nat) (s : sc) (acc : str) : str * sc :=
  match fuel with O => (rev acc, s) | S f =>
    match cur s with
    | Some c => if c =? NL then (rev acc, s) else until_nl_f f (adv s) (c :: acc)
    | None => (rev acc, s)
    end end.
Definition scan_comment (s : sc) : (token * str) * sc :=
  let s1 := adv s in
  let '(txt, s2) := until_nl_f (fuel_of s1) s1 [] in
  if sstate_eqb (st_of s2) TextBlock || sstate_eqb (st_of s2) SEnd then ((COMMENT, txt), s2)
  else
    let s3 := if is_c NL (cur s2) then adv s2 else s2 in
    ((COMMENT, txt), if sstate_eqb (st_of s3) SEnd then s3 else set_state BlockStart s3).

(* scanInterpolation *)
Fixpoint interp_loop (fuel : nat) (s : sc) (acc : str) : option str * sc :=
  match fuel with O => (None, s) | S f =>
    match cur s with
    | None => (None, s)
    | Some c => if c =? 93 then (Some (rev acc), s)
                else if is_space c then (None, s)
                else interp_loop f (adv s) (c :: acc)
    end end.
Definition scan_interpolation (next_first : bool) (tok : token) (s : sc) : (token * str) * sc :=
  let s1 := if next_first then adv s else s in
  if is_c 91 (cur s1) then
    let s2 := adv s1 in
    match interp_loop (fuel_of s2) s2 [] with
    | (Some name, s3) => ((tok, name), s3)
    | (None, s3) => ((ILLEGAL, []), s3)
    end
  else ((ILLEGAL, []), s1).

(* scanArgInterpolation, s.ch == $ *)
Definition scan_arg_interpolation (s : sc) : (token * str) * sc :=
  let s1 := adv s in
  match cur s1 with
  | Some c =>
    if (c <=? 48) || (57 <? c) then
      if c =? 64 then ((ESCAPE, [36; 64]), s1)
      else if c =? 91 then scan_interpolation false NAESCAPE s1
      else if c =? 63 then scan_interpolation true NFESCAPE s1
      else ((ILLEGAL, []), s1)
    else ((AESCAPE, [c]), s1)
  | None => ((ILLEGAL, []), s1)      (* -1 <= 0 *)
  end.

(* scanEscape, s.ch == \\ *)
Definition scan_escape (s : sc) : (token * str) * sc :=
  let s1 := adv s in
  match cur s1 with
  | Some c =>
    if c =? NL then
      let s2 := adv s1 in
      if sstate_eqb (st_of s2) ArgMore then ((EXTEND_LINE, []), set_state NewArg (skip_ws s2))
      else ((EXTEND_LINE, []), s2)
    else if c =? DQ then scan_comment s1
    else if (c =? 101) || (c =? 38) || (c =? 126) then ((ESCAPE, [c]), adv s1)
    else if c =? 42 then
      let '(r, s2) := scan_interpolation true IESCAPE s1 in
      match fst r with ILLEGAL => (r, s2) | _ => (r, adv s2) end
    else if c =? 36 then
      let '(r, s2) := scan_arg_interpolation s1 in
      match fst r with ILLEGAL => (r, s2) | _ => (r, adv s2) end
    else ((ESCAPE, []), adv s1)      (* unknown escape: error, tok = ESCAPE with empty lit *)
  | None => ((ESCAPE, []), adv s1)   (* default branch at EOF *)
  end.

(* scanMacroName, s.ch == . *)
Fixpoint name_loop (fuel : nat) (s : sc) (acc : str) : str * sc :=
  match fuel with O => (rev acc, s) | S f =>
    match cur s with
    | Some c => if is_space c then (rev acc, s)
                else if c =? BS then name_loop f (adv s) acc      (* error, ignored *)
                else name_loop f (adv s) (c :: acc)
    | None => (rev acc, s)
    end end.
Definition scan_macro_name (s : sc) : (token * str) * sc :=
  let s1 := skip_ws (adv s) in
  if is_c NL (cur s1) then ((MACRO_NAME, []), set_state NewArg s1)
  else if is_c BS (cur s1) then
    let s2 := adv s1 in
    if is_c DQ (cur s2) then ((MACRO_NAME, []), set_state CommentLine s2)
    else
      let s3 := skip_line s2 in
      ((ILLEGAL, match cur s3 with Some c => [c] | None => [65533] end), s3)
  else
    let '(nm, s2) := name_loop (fuel_of s1) s1 [] in ((MACRO_NAME, nm), s2).

(* scanArgText *)
Fixpoint arg_text_loop (fuel : nat) (s : sc) (acc : str) : str * sc :=
  match fuel with O => (rev acc, s) | S f =>
    match cur s with
    | None => (rev acc, set_state SEnd s)
    | Some c =>
      if c =? BS then (rev acc, s)
      else if c =? DQ then
        if sstate_eqb (st_of s) QuotedArg then
          let s1 := adv s in
          if is_c DQ (cur s1) then arg_text_loop f (adv s1) (DQ :: acc)
          else (rev acc, set_state ArgEnd s1)
        else arg_text_loop f (adv s) (DQ :: acc)
      else
        if negb (sstate_eqb (st_of s) QuotedArg) && is_space c then (rev acc, set_state ArgEnd s)
        else if c =? NL then (rev acc, set_state ArgEnd s)      (* unterminated quoted argument *)
        else arg_text_loop f (adv s) (c :: acc)
    end end.
Definition scan_arg_text (s : sc) : (token * str) * sc :=
  let '(t, s1) := arg_text_loop (fuel_of s) s [] in ((TEXT, t), s1).

(* scanArgument: state in {ArgMore, NewArg, QuotedArg} *)
Definition scan_argument (s : sc) : (token * str) * sc :=
  match cur s with
  | Some c =>
    if c =? BS then
      scan_escape (if sstate_eqb (st_of s) NewArg then set_state ArgMore s else s)
    else if c =? NL then
      if sstate_eqb (st_of s) ArgMore then ((TEXT, []), set_state ArgEnd s)
      else if sstate_eqb (st_of s) QuotedArg then ((TEXT, []), set_state ArgEnd s)
      else
        let s1 := adv s in
        match cur s1 with
        | None => ((EOF, []), s1)
        | Some _ => ((MACRO_END, []), set_state BlockStart s1)
        end
    else
      let s1 := if sstate_eqb (st_of s) NewArg then
                  (if c =? DQ then adv (set_state QuotedArg s) else set_state ArgMore s)
                else s in
      scan_arg_text s1
  | None =>       (* default branch with ch = -1 *)
      let s1 := if sstate_eqb (st_of s) NewArg then set_state ArgMore s else s in
      scan_arg_text s1
  end.

(* scanText *)
Fixpoint text_loop (fuel : nat) (s : sc) (acc : str) : str * sc :=
  match fuel with O => (rev acc, s) | S f =>
    match cur s with
    | None => (rev acc, set_state SEnd s)
    | Some c =>
      if c =? BS then (rev acc, s)
      else if c =? NL then
        let s1 := adv s in
        if is_c DOT (cur s1) then (rev acc, set_state MacroName s1)
        else match cur s1 with
             | Some _ => text_loop f s1 (NL :: acc)
             | None => text_loop f s1 acc
             end
      else text_loop f (adv s) (c :: acc)
    end end.
Definition scan_text_block (s : sc) : (token * str) * sc :=
  if is_c BS (cur s) then scan_escape s
  else let '(t, s1) := text_loop (fuel_of s) s [] in ((TEXT, t), s1).

(* Scan: returns the token, the remaining input at entry (from which the line is computed), the literal *)
Definition scan_entry (s : sc) : sc := if is_c 0 (cur s) then adv s else s.

Fixpoint scan_dispatch (n : nat) (s : sc) : (token * str) * sc :=
  match st_of s with
  | BlockStart =>
    match n with O => ((ILLEGAL, []), s) | S n' =>
      if is_c DOT (cur s) then scan_dispatch n' (set_state MacroName s) else scan_dispatch n' (set_state TextBlock s) end
  | MacroName =>
    let '(r, s1) := scan_macro_name s in
    if sstate_eqb (st_of s1) CommentLine then (r, s1)
    else
      let s2 := skip_ws s1 in
      if negb (sstate_eqb (st_of s2) BlockStart) && negb (sstate_eqb (st_of s2) SEnd) then (r, set_state NewArg s2)
      else (r, s2)
  | CommentLine => scan_comment (set_state BlockStart s)
  | ArgMore | NewArg | QuotedArg => scan_argument s
  | ArgEnd => ((ARG_END, []), set_state NewArg (skip_ws s))
  | TextBlock => scan_text_block s
  | SEnd => ((EOF, []), s)
  end.

Definition scan1 (s : sc) : (token * list rune * str) * sc :=
  let s0 := scan_entry s in
  let '((tok, lit), s1) := scan_dispatch 2 s0 in
  ((tok, snd s0, lit), s1).

(* line of a token: 1 + the newlines strictly before the current character at Scan entry
   (s.line counts the current character too; Scan subtracts one when it is a newline) *)
Fixpoint count_nl (l : list rune) : nat :=
  match l with [] => O | c :: r => (if c =? NL then 1 else 0) + count_nl r end%nat.
Definition line_at (total : nat) (rest_at_entry : list rune) : nat := (1 + total - count_nl rest_at_entry)%nat.

(* all tokens (for comparison with the Go scanner) *)
Fixpoint scan_all (fuel : nat) (s : sc) : list (token * list rune * str) :=
  match fuel with O => [] | S f =>
    let '(t, s1) := scan1 s in
    match t with
    | (EOF, _, _) => [t]
    | _ => t :: scan_all f s1
    end end.

Definition init_sc (input : str) : sc := (BlockStart, 0 :: input).   (* Go: ch = 0 before the first Scan *)

(* ---------------- parser ---------------- *)
Inductive inline := IText (s : str) | IEsc (s : str) | IVar (s : str) | IArg (n : N) | INamed (s : str) | IFlag (s : str).
Inductive block := BMacro (name : str) (args : list (list inline)) (line : nat) | BText (t : list inline) (line : nat).

Record pst := { p_sc : sc; p_tok : token; p_rest : list rune; p_lit : str }.
Definition p_scan (s : sc) : pst := let '((t, r, l), s1) := scan1 s in {| p_sc := s1; p_tok := t; p_rest := r; p_lit := l |}.

Definition inline_of (t : token) (lit : str) : option inline :=
  match t with
  | TEXT => match lit with [] => None | _ => Some (IText lit) end
  | ESCAPE => Some (IEsc lit)
  | IESCAPE => Some (IVar lit)
  | AESCAPE => Some (IArg (match lit with [c] => c - 48 | _ => 0 end))
  | NAESCAPE => Some (INamed lit)
  | NFESCAPE => Some (IFlag lit)
  | _ => None
  end.
Definition snoc_opt {A} (l : list A) (o : option A) := match o with Some x => l ++ [x] | None => l end.

Inductive perr := UnexpectedToken (t : token) | OutOfFuel.

Fixpoint parse_text (fuel : nat) (p : pst) (acc : list inline) : (list inline * pst) + perr :=
  match fuel with O => inr OutOfFuel | S f =>
    match p_tok p with
    | TEXT | ESCAPE | IESCAPE | AESCAPE | NAESCAPE | NFESCAPE | COMMENT | ILLEGAL =>
        parse_text f (p_scan (p_sc p)) (snoc_opt acc (inline_of (p_tok p) (p_lit p)))
    | MACRO_NAME | EOF => inl (acc, p)
    | t => inr (UnexpectedToken t)
    end end.

(* parseMacro: p.tok == MACRO_NAME; scans first *)
Fixpoint parse_macro (fuel : nat) (p : pst) (args : list (list inline)) (a : list inline) : (list (list inline) * pst) + perr :=
  match fuel with O => inr OutOfFuel | S f =>
    let p1 := p_scan (p_sc p) in
    match p_tok p1 with
    | TEXT | ESCAPE | IESCAPE | AESCAPE | NAESCAPE | NFESCAPE =>
        parse_macro f p1 args (snoc_opt a (inline_of (p_tok p1) (p_lit p1)))
    | COMMENT | MACRO_END =>
        inl (match a with [] => args | _ => args ++ [a] end, p_scan (p_sc p1))
    | EOF => inl (match a with [] => args | _ => args ++ [a] end, p1)
    | EXTEND_LINE | ILLEGAL => parse_macro f p1 args a
    | ARG_END => parse_macro f p1 (args ++ [a]) []
    | t => inr (UnexpectedToken t)
    end end.

Fixpoint parse_blocks (total : nat) (fuel : nat) (p : pst) (acc : list block) : list block * option perr :=
  match fuel with O => (acc, Some OutOfFuel) | S f =>
    let line := line_at total (p_rest p) in
    match p_tok p with
    | MACRO_NAME =>
        match parse_macro fuel p [] [] with
        | inl (args, p1) => parse_blocks total f p1 (acc ++ [BMacro (p_lit p) args line])
        | inr e => (acc, Some e)
        end
    | TEXT | ESCAPE | IESCAPE | AESCAPE | NAESCAPE | NFESCAPE | COMMENT | ILLEGAL =>
        match parse_text fuel p [] with
        | inl (t, p1) => parse_blocks total f p1 (acc ++ [BText t line])
        | inr e => (acc, Some e)
        end
    | EOF => (acc, None)
    | t => (acc, Some (UnexpectedToken t))
    end end.

Definition parse (input : str) : list block * option perr :=
  let fuel := (3 * length input + 8)%nat in
  parse_blocks (count_nl input) fuel (p_scan (init_sc input)) [].

Definition ex1 : str := [46;83;109;32;97;10;10;46;83;109;32;98;10].   (* .Sm a\n\n.Sm b\n *)
Eval vm_compute in parse ex1.
