(* Scratch prototype, Tier 3 slice: InlinesToText, RenderText (xhtml), ParseOptions, isPunctArg *)
From Coq Require Import List NArith Bool Lia Arith String.
Import ListNotations.
Require Import St.
Require Typo Unicode.
Open Scope N_scope.

(* inlineToText: unknown variables are reported (whatever the pass); names starting with $ read the environment (empty here) *)
Definition inline_text (i : inline) (s : st) : str * st :=
  match i with
  | IText t => (t, s)
  | IEsc e => ((if str_eqb e [101] then [92] else if str_eqb e [126] then [160] else []), s)
  | IVar v => match assoc v (ivars s) with
              | Some x => (x, s)
              | None => match v with 36 :: _ => ([], s) | _ => ([], err "unknown variable name" s) end
              end
  | _ => ([], s)
  end.
Fixpoint inlines_text (l : list inline) (s : st) : str * st :=
  match l with
  | [] => ([], s)
  | i :: r => let '(a, s1) := inline_text i s in let '(b, s2) := inlines_text r s1 in (a ++ b, s2)
  end.

(* typography works on its own inline type; other kinds pass through opaquely *)
Definition to_typo (i : inline) : Typo.inline :=
  match i with
  | IText t => Typo.IText t | IEsc e => Typo.IEsc e
  | IVar v => Typo.IOther 0 v | IArg n => Typo.IOther 1 [n] | INamed v => Typo.IOther 2 v | IFlag v => Typo.IOther 3 v
  end.
Definition of_typo (i : Typo.inline) : inline :=
  match i with
  | Typo.IText t => IText t | Typo.IEsc e => IEsc e
  | Typo.IOther k v => if k =? 0 then IVar v else if k =? 1 then IArg (hd 0 v) else if k =? 2 then INamed v else IFlag v
  end.

Fixpoint errs_n (n : nat) (s : st) : st := match n with O => s | S m => errs_n m (err "incorrect regular space" s) end.

Definition escape_fn (s : st) : str -> str :=
  if str_eqb (format s) (R "latex") then latex_escape else if str_eqb (format s) (R "mom") then roff_escape
  else if str_eqb (format s) (R "markdown") then markdown_escape else html_escape.

Definition lang (s : st) : str := match assoc (R "lang") (params s) with Some l => l | None => [] end.

Definition render_text (l : list inline) (s : st) : str * st :=
  let '(l1, s1) :=
    if str_eqb (lang s) (R "fr") then
      let '(o, n) := Typo.french (map to_typo l) in (map of_typo o, errs_n n s)
    else if str_eqb (lang s) (R "en") then (map of_typo (Typo.english (map to_typo l)), s)
    else (l, s) in
  let '(t, s2) := inlines_text l1 s1 in (escape_fn s2 t, s2).

Fixpoint render_args (l : list arg) (s : st) : str * st :=
  match l with
  | [] => ([], s)
  | [a] => render_text a s
  | a :: r => let '(x, s1) := render_text a s in let '(y, s2) := render_args r s1 in (x ++ [32] ++ y, s2)
  end.
Fixpoint args_text (l : list arg) (s : st) : str * st :=
  match l with
  | [] => ([], s)
  | [a] => inlines_text a s
  | a :: r => let '(x, s1) := inlines_text a s in let '(y, s2) := args_text r s1 in (x ++ [32] ++ y, s2)
  end.

(* ParseOptions: spec maps option name to true (takes an argument) / false (flag) *)
Definition spec := list (str * bool).
Record popts := mkPo { po_opts : list (str * arg); po_flags : list str; po_args : list arg }.
Definition opt (n : string) (p : popts) : option arg := assoc (runes n) (po_opts p).
Definition flag (n : string) (p : popts) : bool := existsb (str_eqb (runes n)) (po_flags p).

Fixpoint parse_options (fuel : nat) (sp : spec) (l : list arg) (acc : popts) (s : st) : popts * st :=
  match fuel with O => (acc, s) | S f =>
    match l with
    | [] => (mkPo (po_opts acc) (po_flags acc) [], s)
    | a :: rest =>
      match a with
      | IText (45 :: t0) :: _ =>
          let '(full, s1) := inlines_text a s in
          let name := tl full in
          match assoc name sp with
          | None => parse_options f sp rest acc (err "unrecognized option" s1)
          | Some true =>
              match rest with
              | [] => parse_options f sp [] acc (err "option requires an argument" s1)
              | v :: rest2 =>
                  let keep := match v with IText [45] :: _ => false | _ => true end in
                  parse_options f sp rest2 (if keep then mkPo (assoc_set name v (po_opts acc)) (po_flags acc) [] else acc) s1
              end
          | Some false => parse_options f sp rest (mkPo (po_opts acc) (name :: po_flags acc) []) s1
          end
      | _ => (mkPo (po_opts acc) (po_flags acc) l, s)
      end
    end end.
Definition parse_opts (sp : spec) (l : list arg) (s : st) : popts * st :=
  parse_options (S (List.length l)) sp l (mkPo [] [] []) s.

(* unicode.IsPunct: the toolchain's P table, regenerated into Gen/Tables.v *)
Definition is_punct (c : rune) : bool := Unicode.is_punct c.

Definition is_punct_arg (a : arg) (s : st) : bool * st :=
  let '(a1, stop) := match a with
                     | IEsc e :: r => if str_eqb e [38] then (a, true) else if str_eqb e [126] then (r, false) else (a, false)
                     | _ => (a, false)
                     end in
  if stop then (false, s) else
  match a1 with
  | [] => (false, s)
  | _ => let '(t, s1) := inlines_text a1 s in (forallb is_punct t, s1)
  end.

(* getClosePunct *)
Definition get_close_punct (l : list arg) (s : st) : list arg * str * st :=
  match rev l with
  | [] => (l, [], s)
  | lastarg :: revrest =>
      let '(b, s1) := is_punct_arg lastarg s in
      if b then let '(p, s2) := render_text lastarg s1 in (rev revrest, p, s2) else (l, [], s1)
  end.
