package main

import (
	"bufio"
	"fmt"
	"strconv"
	"strings"

	"codeberg.org/anaseto/gofrundis/exporter/markdown"
)

// case: "<indent> r1 r2 ..."  result: "r1 r2 ..."
func init() {
	cmds["reflow"] = func(in *bufio.Scanner, w *bufio.Writer, _ []string) {
		for in.Scan() {
			fs := strings.Fields(in.Text())
			if len(fs) == 0 {
				fmt.Fprintln(w)
				continue
			}
			ind, _ := strconv.Atoi(fs[0])
			out := markdown.VerifProcessText(ind, []byte(unrunes(strings.Join(fs[1:], " "))))
			fmt.Fprintln(w, strings.ReplaceAll(runes(string(out)), ",", " "))
		}
	}
}
