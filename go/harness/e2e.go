package main

import (
	"bufio"
	"bytes"
	"fmt"
	"os"
	"path/filepath"
	"sort"
	"strings"
	"time"

	"codeberg.org/anaseto/gofrundis/exporter/latex"
	"codeberg.org/anaseto/gofrundis/exporter/markdown"
	"codeberg.org/anaseto/gofrundis/exporter/mom"
	"codeberg.org/anaseto/gofrundis/exporter/xhtml"
	"codeberg.org/anaseto/gofrundis/frundis"
)

// e2e: case "<f><mode> r1 r2 ..." compiled in-process through frundis.ProcessFrundisSource.
//   f: x xhtml, e epub, l latex, m mom, k markdown; mode: 0 fragment, 1 standalone single file, 2 multi-file, 3 epub
// result: "OK <path>=<runes>;... | <stderr lines joined by \x1f>"  or  "PANIC <msg>"
const watchdog = 4 * time.Second

func init() {
	cmds["e2e"] = func(in *bufio.Scanner, w *bufio.Writer, _ []string) {
		dir := filepath.Join(os.TempDir(), fmt.Sprintf("verif-e2e-%d", os.Getpid()))
		if d := os.Getenv("VERIF_RUNDIR"); d != "" {
			dir = filepath.Join(d, fmt.Sprintf("e2e-%d", os.Getpid()))
		}
		os.RemoveAll(dir)
		os.MkdirAll(dir, 0755)
		defer os.RemoveAll(dir)
		old, _ := os.Getwd()
		os.Chdir(dir)
		defer os.Chdir(old)
		os.MkdirAll("w", 0755)
		// images the documents may reference
		for _, n := range []string{"i.png", "i.pdf", "i.eps", "img.png", "b\\.png", "d\\", "c&o.png", "c\"o.png"} {
			os.WriteFile(n, []byte("x"), 0644)
		}
		for in.Scan() {
			parts := strings.Split(in.Text(), " | ")
			toks := strings.SplitN(strings.TrimSpace(parts[0]), " ", 2)
			fm := toks[0][:1]
			mode := 0
			if len(toks[0]) > 1 {
				mode = int(toks[0][1] - '0')
			}
			unrestricted := strings.Contains(toks[0][1:], "x")
			src := ""
			if len(toks) > 1 {
				src = unrunes(toks[1])
			}
			os.WriteFile("w/d.frundis", []byte(src), 0644)
			// the rest of the world: "F name=content" files (relative to the working directory), "L dir" FRUNDISLIB entries
			var extra, libs []string
			for _, p := range parts[1:] {
				p = strings.TrimSpace(p)
				switch {
				case strings.HasPrefix(p, "F "):
					nc := strings.SplitN(p[2:], "=", 2)
					name := unrunes(nc[0])
					if d := filepath.Dir(name); d != "." {
						os.MkdirAll(d, 0755)
					}
					os.WriteFile(name, []byte(unrunes(nc[1])), 0644)
					extra = append(extra, name)
				case strings.HasPrefix(p, "L "):
					libs = append(libs, unrunes(p[2:]))
				}
			}
			if libs != nil {
				os.Setenv("FRUNDISLIB", strings.Join(libs, ":"))
			} else {
				os.Unsetenv("FRUNDISLIB")
			}
			cleanup := func() {
				for _, n := range extra {
					os.Remove(n)
					if d := filepath.Dir(n); d != "." {
						os.Remove(d)
					}
				}
			}
			var errb bytes.Buffer
			var exp frundis.Exporter
			os.RemoveAll("w/outdir")
			os.Remove("w/out.html")
			switch fm {
			case "l":
				exp = latex.NewExporter(&latex.Options{OutputFile: "w/out.html", Standalone: mode == 1})
			case "m":
				exp = mom.NewExporter(&mom.Options{OutputFile: "w/out.html", Standalone: mode == 1})
			case "k":
				exp = markdown.NewExporter(&markdown.Options{OutputFile: "w/out.html"})
			case "e":
				exp = xhtml.NewExporter(&xhtml.Options{Format: "epub", Standalone: true, OutputFile: "w/outdir", Werror: &errb})
				mode = 3
			default:
				switch mode {
				case 1:
					exp = xhtml.NewExporter(&xhtml.Options{Format: "xhtml", AllInOneFile: true, Standalone: true, OutputFile: "w/out.html", Werror: &errb})
				case 2:
					exp = xhtml.NewExporter(&xhtml.Options{Format: "xhtml", AllInOneFile: false, Standalone: true, OutputFile: "w/outdir", Werror: &errb})
				case 3:
					exp = xhtml.NewExporter(&xhtml.Options{Format: "epub", Standalone: true, OutputFile: "w/outdir", Werror: &errb})
				default:
					exp = xhtml.NewExporter(&xhtml.Options{Format: "xhtml", AllInOneFile: true, OutputFile: "w/out.html", Werror: &errb})
				}
			}
			// the non-XHTML exporters write diagnostics to os.Stderr
			ef, _ := os.Create("w/stderr")
			oldErr := os.Stderr
			os.Stderr = ef
			var pmsg string
			var ferr error
			done := make(chan struct{})
			go func() {
				defer close(done)
				defer func() {
					if p := recover(); p != nil {
						pmsg = fmt.Sprint(p)
					}
				}()
				ferr = frundis.ProcessFrundisSource(exp, "w/d.frundis", unrestricted)
			}()
			select {
			case <-done:
			case <-time.After(watchdog):
				// runaway compilation: report and give up this process; the caller resumes after this case
				os.Stderr = oldErr
				fmt.Fprintln(w, "TIMEOUT")
				w.Flush()
				os.Chdir(old)
				os.RemoveAll(dir)
				os.Exit(3)
			}
			os.Stderr = oldErr
			ef.Close()
			cleanup()
			if eb, err := os.ReadFile("w/stderr"); err == nil {
				errb.Write(eb)
			}
			if pmsg != "" {
				fmt.Fprintf(w, "PANIC %s\n", strings.ReplaceAll(pmsg, "\n", " "))
				w.Flush()
				continue
			}
			if ferr != nil {
				fmt.Fprintf(w, "FATAL %s\n", strings.ReplaceAll(ferr.Error(), "\n", " "))
				w.Flush()
				continue
			}
			var p []string
			if mode >= 2 {
				var names []string
				filepath.Walk("w/outdir", func(pth string, info os.FileInfo, err error) error {
					if err == nil && !info.IsDir() {
						rel, _ := filepath.Rel("w/outdir", pth)
						names = append(names, rel)
					}
					return nil
				})
				sort.Strings(names)
				for _, n := range names {
					data, _ := os.ReadFile("w/outdir/" + n)
					if strings.HasPrefix(n, "EPUB/images/") {
						data = nil
					}
					p = append(p, runes(n)+"="+runes(string(data)))
				}
			} else {
				out, _ := os.ReadFile("w/out.html")
				p = append(p, "="+runes(string(out)))
			}
			lines := strings.Split(strings.TrimRight(errb.String(), "\n"), "\n")
			if errb.Len() == 0 {
				lines = nil
			}
			fmt.Fprintf(w, "OK %s | %s\n", strings.Join(p, ";"), strings.Join(lines, "\x1f"))
			w.Flush()
		}
	}
}
