package main

// Streams that run the real frundis binary (built from /repo's cmd/frundis, path in $VERIF_FRUNDIS) in a
// scratch directory and observe its effects on the file system: commands started (marker file), files created
// outside the output path, the EPUB archive; and the in-process history stream.

import (
	"archive/zip"
	"bufio"
	"bytes"
	"crypto/sha256"
	"fmt"
	"io"
	"os"
	"os/exec"
	"path/filepath"
	"sort"
	"strings"

	"codeberg.org/anaseto/gofrundis/exporter/latex"
	"codeberg.org/anaseto/gofrundis/exporter/markdown"
	"codeberg.org/anaseto/gofrundis/exporter/mom"
	"codeberg.org/anaseto/gofrundis/exporter/xhtml"
	"codeberg.org/anaseto/gofrundis/frundis"
)

func scratch(tag string) string {
	base := os.Getenv("VERIF_RUNDIR")
	if base == "" {
		base = os.TempDir()
	}
	dir := filepath.Join(base, fmt.Sprintf("verif-%s-%d", tag, os.Getpid()))
	os.RemoveAll(dir)
	os.MkdirAll(dir, 0755)
	return dir
}

func tree(root string) map[string]string {
	m := map[string]string{}
	filepath.Walk(root, func(p string, info os.FileInfo, err error) error {
		if err != nil {
			return nil
		}
		rel, _ := filepath.Rel(root, p)
		if info.IsDir() {
			m[rel+"/"] = ""
		} else {
			b, _ := os.ReadFile(p)
			m[rel] = string(b)
		}
		return nil
	})
	return m
}

func runBin(dir string, env []string, args ...string) (string, int) {
	cmd := exec.Command(os.Getenv("VERIF_FRUNDIS"), args...)
	cmd.Dir = dir
	cmd.Env = append(os.Environ(), env...)
	var out bytes.Buffer
	cmd.Stdout = &out
	cmd.Stderr = &out
	err := cmd.Run()
	code := 0
	if err != nil {
		code = 1
		if ee, ok := err.(*exec.ExitError); ok {
			code = ee.ExitCode()
		}
	}
	return out.String(), code
}

func init() {
	// runroutes: "<flags> | <doc runes> [| F name=content]" with flags a space separated list of binary arguments
	// (e.g. "-T xhtml -a -x"); prints "ran=<0|1> skipdiag=<0|1> exit=<n>"
	cmds["runroutes"] = func(in *bufio.Scanner, w *bufio.Writer, _ []string) {
		dir := scratch("run")
		defer os.RemoveAll(dir)
		for in.Scan() {
			parts := strings.Split(in.Text(), " | ")
			os.RemoveAll(dir)
			os.MkdirAll(dir, 0755)
			os.WriteFile(filepath.Join(dir, "d.frundis"), []byte(unrunes(parts[1])), 0644)
			for _, p := range parts[2:] {
				if strings.HasPrefix(p, "F ") {
					nc := strings.SplitN(p[2:], "=", 2)
					os.WriteFile(filepath.Join(dir, unrunes(nc[0])), []byte(unrunes(nc[1])), 0644)
				}
			}
			args := append(strings.Fields(parts[0]), "d.frundis")
			out, code := runBin(dir, nil, args...)
			_, err := os.Stat(filepath.Join(dir, "MARK"))
			ran := 0
			if err == nil {
				ran = 1
			}
			skip := 0
			if strings.Contains(out, "skipping disallowed external command") {
				skip = 1
			}
			fmt.Fprintf(w, "ran=%d skipdiag=%d exit=%d\n", ran, skip, code)
		}
	}

	// sandbox: "<xhtml|epub|latex|...> | <doc runes>": binary run in <sandbox>/in with -o out; reports every path created
	// or modified outside <sandbox>/in/out and anything left in TMPDIR
	cmds["sandbox"] = func(in *bufio.Scanner, w *bufio.Writer, _ []string) {
		dir := scratch("sandbox")
		defer os.RemoveAll(dir)
		for in.Scan() {
			parts := strings.Split(in.Text(), " | ")
			os.RemoveAll(dir)
			os.MkdirAll(filepath.Join(dir, "in"), 0755)
			os.MkdirAll(filepath.Join(dir, "tmp"), 0755)
			os.MkdirAll(filepath.Join(dir, "sibling"), 0755)
			wd := filepath.Join(dir, "in")
			os.WriteFile(filepath.Join(wd, "d.frundis"), []byte(unrunes(parts[1])), 0644)
			for _, n := range []string{"i.png", "img.png", "a%2Fb", "..%2F..%2Fz", "..%2F..%2F..%2Fup3", "%2E%2E%2Fq"} {
				os.WriteFile(filepath.Join(wd, n), []byte("x"), 0644)
			}
			before := tree(dir)
			args := []string{"-T", parts[0], "-o", "out", "d.frundis"}
			if parts[0] == "xhtml" {
				args = []string{"-T", "xhtml", "-s", "-o", "out", "d.frundis"}
			}
			if len(parts) > 2 && strings.TrimSpace(parts[2]) != "" {
				args = append(strings.Fields(parts[2]), args...)
			}
			_, code := runBin(wd, []string{"TMPDIR=" + filepath.Join(dir, "tmp")}, args...)
			after := tree(dir)
			var bad []string
			for p, c := range after {
				if strings.HasPrefix(p, "in/out/") || p == "in/out" || p == "in/out/" {
					continue
				}
				if old, ok := before[p]; !ok || old != c {
					bad = append(bad, p)
				}
			}
			sort.Strings(bad)
			if len(bad) > 0 {
				fmt.Fprintf(w, "VIOL created or modified outside the output path: %s (exit %d)\n", strings.Join(bad, " "), code)
			} else {
				fmt.Fprintf(w, "OK exit=%d files=%d\n", code, len(after)-len(before))
			}
		}
	}

	// zip: "<output path spelling runes> | <doc runes>": binary run with -T epub -z -o <spelling>; the archive must contain
	// exactly the files of the tree, mimetype first and stored
	cmds["zip"] = func(in *bufio.Scanner, w *bufio.Writer, _ []string) {
		dir := scratch("zip")
		defer os.RemoveAll(dir)
		for in.Scan() {
			parts := strings.Split(in.Text(), " | ")
			os.RemoveAll(dir)
			os.MkdirAll(filepath.Join(dir, "sub"), 0755)
			os.MkdirAll(filepath.Join(dir, "a", "b"), 0755)
			o := unrunes(parts[0])
			os.WriteFile(filepath.Join(dir, "d.frundis"), []byte(unrunes(parts[1])), 0644)
			for _, n := range []string{"i.png", "img.png"} {
				os.WriteFile(filepath.Join(dir, n), []byte("x"), 0644)
			}
			out, code := runBin(dir, nil, "-T", "epub", "-z", "-o", o, "d.frundis")
			clean := filepath.Join(dir, filepath.Clean(o))
			zr, err := zip.OpenReader(clean + ".epub")
			if err != nil {
				fmt.Fprintf(w, "VIOL no archive: %v (exit %d: %s)\n", err, code, strings.ReplaceAll(out, "\n", " "))
				continue
			}
			t := tree(clean)
			want := map[string]string{}
			for p, c := range t {
				if !strings.HasSuffix(p, "/") && p != "." {
					want[p] = c
				}
			}
			msg := ""
			got := map[string]bool{}
			for i, f := range zr.File {
				if strings.HasSuffix(f.Name, "/") {
					continue
				}
				if i == 0 && (f.Name != "mimetype" || f.Method != zip.Store) {
					msg = fmt.Sprintf("first entry is %q method %d", f.Name, f.Method)
				}
				if got[f.Name] {
					msg = "duplicate entry " + f.Name
				}
				got[f.Name] = true
				rc, _ := f.Open()
				b, _ := io.ReadAll(rc)
				rc.Close()
				if c, ok := want[f.Name]; !ok {
					msg = "archive entry not in the tree: " + f.Name
				} else if c != string(b) {
					msg = "archive entry differs from the tree: " + f.Name
				}
			}
			for p := range want {
				if !got[p] {
					msg = "tree file missing from the archive: " + p
				}
			}
			zr.Close()
			if msg != "" {
				fmt.Fprintf(w, "VIOL %s\n", msg)
			} else {
				fmt.Fprintf(w, "OK entries=%d\n", len(got))
			}
		}
	}

	// hist: "fm runes ;; fm runes ;; ...": the compilations are run in this process one after the other, each with a freshly
	// constructed exporter; prints the digest of the LAST compilation's observable result (files + diagnostics)
	cmds["hist"] = func(in *bufio.Scanner, w *bufio.Writer, _ []string) {
		dir := scratch("hist")
		defer os.RemoveAll(dir)
		old, _ := os.Getwd()
		os.Chdir(dir)
		defer os.Chdir(old)
		for in.Scan() {
			var last string
			for _, job := range strings.Split(in.Text(), " ;; ") {
				toks := strings.SplitN(strings.TrimSpace(job), " ", 2)
				src := ""
				if len(toks) > 1 {
					src = unrunes(toks[1])
				}
				last = compileOnce(toks[0], src)
			}
			fmt.Fprintf(w, "%x\n", sha256.Sum256([]byte(last)))
		}
	}
}

// compileOnce compiles src in the current directory with a fresh exporter and returns a canonical dump of the result.
func compileOnce(fm string, src string) string {
	os.RemoveAll("w")
	os.MkdirAll("w", 0755)
	os.WriteFile("w/d.frundis", []byte(src), 0644)
	var errb bytes.Buffer
	var exp frundis.Exporter
	mode := 0
	if len(fm) > 1 {
		mode = int(fm[1] - '0')
	}
	switch fm[0] {
	case 'l':
		exp = latex.NewExporter(&latex.Options{OutputFile: "w/out.html"})
	case 'm':
		exp = mom.NewExporter(&mom.Options{OutputFile: "w/out.html"})
	case 'k':
		exp = markdown.NewExporter(&markdown.Options{OutputFile: "w/out.html"})
	case 'e':
		exp = xhtml.NewExporter(&xhtml.Options{Format: "epub", Standalone: true, OutputFile: "w/outdir", Werror: &errb})
	default:
		switch mode {
		case 2:
			exp = xhtml.NewExporter(&xhtml.Options{Format: "xhtml", AllInOneFile: false, Standalone: true, OutputFile: "w/outdir", Werror: &errb})
		case 1:
			exp = xhtml.NewExporter(&xhtml.Options{Format: "xhtml", AllInOneFile: true, Standalone: true, OutputFile: "w/out.html", Werror: &errb})
		default:
			exp = xhtml.NewExporter(&xhtml.Options{Format: "xhtml", AllInOneFile: true, OutputFile: "w/out.html", Werror: &errb})
		}
	}
	ef, _ := os.Create("w/stderr")
	oldErr := os.Stderr
	os.Stderr = ef
	var res string
	func() {
		defer func() {
			if p := recover(); p != nil {
				res = fmt.Sprint("PANIC ", p)
			}
		}()
		if err := frundis.ProcessFrundisSource(exp, "w/d.frundis", false); err != nil {
			res = "FATAL " + err.Error()
		}
	}()
	os.Stderr = oldErr
	ef.Close()
	var b strings.Builder
	b.WriteString(res + "\n")
	t := tree("w")
	var names []string
	for n := range t {
		names = append(names, n)
	}
	sort.Strings(names)
	for _, n := range names {
		if n == "d.frundis" || strings.HasSuffix(n, "/") || n == "." {
			continue
		}
		c := t[n]
		if strings.HasSuffix(n, "content.opf") || strings.HasSuffix(n, "toc.ncx") {
			c = normNondet(c)
		}
		fmt.Fprintf(&b, "== %s\n%s\n", n, c)
	}
	b.WriteString("== diagnostics\n" + errb.String())
	return b.String()
}

func normNondet(c string) string {
	// random identifier and modification time used when epub-uuid is unset (excluded by the property)
	for {
		i := strings.Index(c, "urn:uuid:")
		if i < 0 || len(c) < i+45 {
			break
		}
		c = c[:i] + "URN-UUID" + c[i+45:]
	}
	if i := strings.Index(c, "<meta property=\"dcterms:modified\">"); i >= 0 {
		if j := strings.Index(c[i:], "</meta>"); j >= 0 {
			c = c[:i] + c[i+j:]
		}
	}
	return c
}
