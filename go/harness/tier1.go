package main

import (
	"bufio"
	"bytes"
	"fmt"
	"html"
	"io"
	"net/url"
	"path"
	"strconv"
	"strings"
	"unicode"

	"codeberg.org/anaseto/gofrundis/ast"
	"codeberg.org/anaseto/gofrundis/escape"
	"codeberg.org/anaseto/gofrundis/exporter/xhtml"
	"codeberg.org/anaseto/gofrundis/frundis"
	"codeberg.org/anaseto/gofrundis/parser"
)

func showInline(e ast.Inline) string {
	switch e := e.(type) {
	case ast.Text:
		return "T:" + runes(string(e))
	case ast.Escape:
		return "E:" + runes(string(e))
	case ast.VarEscape:
		return "V:" + runes(string(e))
	case ast.ArgEscape:
		return "A:" + strconv.Itoa(int(e))
	case ast.NamedArgEscape:
		return "N:" + runes(string(e))
	case ast.NamedFlagEscape:
		return "F:" + runes(string(e))
	}
	return "?"
}

func showArg(a []ast.Inline) string {
	var p []string
	for _, e := range a {
		p = append(p, showInline(e))
	}
	return "(" + strings.Join(p, " ") + ")"
}

func parseItems(line string) []ast.Inline {
	var in []ast.Inline
	for _, it := range strings.Fields(line) {
		s := unrunes(it[2:])
		switch it[0] {
		case 'T':
			in = append(in, ast.Text(s))
		case 'E':
			in = append(in, ast.Escape(s))
		default:
			in = append(in, ast.VarEscape(s))
		}
	}
	return in
}

func init() {
	// typo: items "T:1,2 E:38 V:118" -> "<french> | <nerr> | <english>"
	cmds["typo"] = func(in *bufio.Scanner, w *bufio.Writer, _ []string) {
		var errb bytes.Buffer
		exp := xhtml.NewExporter(&xhtml.Options{Format: "xhtml", AllInOneFile: true, Werror: &errb})
		exp.Init()
		show := func(l []ast.Inline) string {
			var p []string
			for _, e := range l {
				p = append(p, showInline(e))
			}
			return strings.Join(p, " ")
		}
		for in.Scan() {
			items := parseItems(in.Text())
			errb.Reset()
			fr := frundis.FrenchTypography(exp, items)
			nerr := strings.Count(errb.String(), "\n")
			en := frundis.EnglishTypography(exp, items)
			fmt.Fprintf(w, "%s | %d | %s\n", show(fr), nerr, show(en))
		}
	}
	// parse: "r1 r2 ..." -> blocks
	cmds["parse"] = func(in *bufio.Scanner, w *bufio.Writer, _ []string) {
		for in.Scan() {
			p := parser.Parser{Werror: io.Discard}
			bs, err := p.ParseString(unrunes(in.Text()))
			var out []string
			for _, b := range bs {
				switch b := b.(type) {
				case *ast.Macro:
					s := fmt.Sprintf("M%d:%s", b.Line, runes(b.Name))
					for _, a := range b.Args {
						s += showArg(a)
					}
					out = append(out, s)
				case *ast.TextBlock:
					out = append(out, fmt.Sprintf("X%d:%s", b.Line, showArg(b.Text)))
				}
			}
			line := strings.Join(out, " # ")
			if err != nil {
				line += " ERR"
			}
			fmt.Fprintln(w, line)
		}
	}
	// path: "a|b" (runes) -> clean a | join a b | base a | join a EPUB b
	cmds["path"] = func(in *bufio.Scanner, w *bufio.Writer, _ []string) {
		for in.Scan() {
			p := strings.SplitN(in.Text(), "|", 2)
			if len(p) != 2 {
				fmt.Fprintln(w, "?")
				continue
			}
			a, b := unrunes(p[0]), unrunes(p[1])
			fmt.Fprintf(w, "%s|%s|%s|%s\n", runes(path.Clean(a)), runes(path.Join(a, b)), runes(path.Base(a)), runes(path.Join(a, "EPUB", b)))
		}
	}
	// esc: "<table> r1 r2 ..." -> enc | RT   (the decoding column is the model's; the harness prints RT)
	cmds["esc"] = func(in *bufio.Scanner, w *bufio.Writer, _ []string) {
		for in.Scan() {
			fs := strings.Fields(in.Text())
			if len(fs) == 0 {
				fmt.Fprintln(w)
				continue
			}
			s := unrunes(strings.Join(fs[1:], " "))
			var e string
			switch fs[0] {
			case "latex":
				e = escape.LaTeX(s)
			case "roff":
				e = escape.Roff(s)
			case "markdown":
				e = escape.Markdown(s)
			default:
				e = html.EscapeString(s)
			}
			fmt.Fprintf(w, "%s | RT\n", strings.ReplaceAll(runes(e), ",", " "))
		}
	}
	// uni: "c" -> is_space is_punct
	cmds["uni"] = func(in *bufio.Scanner, w *bufio.Writer, _ []string) {
		for in.Scan() {
			c, _ := strconv.Atoi(strings.TrimSpace(in.Text()))
			fmt.Fprintf(w, "%v %v\n", unicode.IsSpace(rune(c)), unicode.IsPunct(rune(c)))
		}
	}
}

// urlcands: e2e case line -> the " | U raw=norm" / " | U raw=!" world entries for every literal macro argument (of the
// main document and of its F files) on which url.Parse(x).String() is not the identity ("!" = parse error).
func init() {
	cmds["urlcands"] = func(in *bufio.Scanner, w *bufio.Writer, _ []string) {
		for in.Scan() {
			parts := strings.Split(in.Text(), " | ")
			var docs []string
			if toks := strings.SplitN(strings.TrimSpace(parts[0]), " ", 2); len(toks) > 1 {
				docs = append(docs, unrunes(toks[1]))
			}
			for _, p := range parts[1:] {
				if strings.HasPrefix(p, "F ") {
					if nc := strings.SplitN(p[2:], "=", 2); len(nc) == 2 {
						docs = append(docs, unrunes(nc[1]))
					}
				}
			}
			seen := map[string]bool{}
			var out []string
			for _, d := range docs {
				p := parser.Parser{Werror: io.Discard}
				bs, _ := p.ParseString(d)
				for _, b := range bs {
					m, ok := b.(*ast.Macro)
					if !ok {
						continue
					}
					for _, a := range m.Args {
						s, lit := "", true
						for _, e := range a {
							switch e := e.(type) {
							case ast.Text:
								s += string(e)
							case ast.Escape:
								switch string(e) {
								case "e":
									s += "\\"
								case "&":
								case "~":
									s += " "
								default:
									lit = false
								}
							default:
								lit = false
							}
						}
						if !lit || s == "" || seen[s] {
							continue
						}
						seen[s] = true
						for _, cand := range []string{s, path.Base(s)} {
							if seen["c:"+cand] {
								continue
							}
							seen["c:"+cand] = true
							u, err := url.Parse(cand)
							if err != nil {
								out = append(out, "U "+runes(cand)+"=!")
							} else if u.String() != cand {
								out = append(out, "U "+runes(cand)+"="+runes(u.String()))
							}
						}
					}
				}
			}
			if len(out) > 0 {
				fmt.Fprintln(w, " | "+strings.Join(out, " | "))
			} else {
				fmt.Fprintln(w)
			}
		}
	}
}
