// Command harness runs the gofrundis implementation (built from /repo's working
// tree with -tags verif) on case lines read from stdin and prints one canonical
// result line per case; the extracted Coq model prints the same format.
package main

import (
	"bufio"
	"fmt"
	"os"
	"strconv"
	"strings"
)

var cmds = map[string]func(in *bufio.Scanner, w *bufio.Writer, args []string){}

func runes(s string) string {
	var p []string
	for _, c := range s {
		p = append(p, strconv.Itoa(int(c)))
	}
	return strings.Join(p, ",")
}

// unrunes decodes "1,2,3" or "1 2 3".
func unrunes(s string) string {
	var rs []rune
	for _, f := range strings.FieldsFunc(s, func(r rune) bool { return r == ',' || r == ' ' }) {
		v, err := strconv.Atoi(f)
		if err != nil {
			panic("bad rune " + f)
		}
		rs = append(rs, rune(v))
	}
	return string(rs)
}

func main() {
	if len(os.Args) < 2 {
		fmt.Fprintln(os.Stderr, "usage: harness <stream> [args]")
		os.Exit(2)
	}
	f, ok := cmds[os.Args[1]]
	if !ok {
		fmt.Fprintln(os.Stderr, "unknown stream", os.Args[1])
		os.Exit(2)
	}
	sc := bufio.NewScanner(os.Stdin)
	sc.Buffer(make([]byte, 1<<24), 1<<24)
	w := bufio.NewWriter(os.Stdout)
	defer w.Flush()
	f(sc, w, os.Args[2:])
}
