module verif/harness

go 1.21

require codeberg.org/anaseto/gofrundis v0.0.0

replace codeberg.org/anaseto/gofrundis => /repo
