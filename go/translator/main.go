// Command translator regenerates the Coq files under coq/Gen from /repo's
// current source: escape tables, Unicode class tables, the leaf functions of
// toc.go as GoLite terms, and static facts (process-creation sites and their
// guards, package-level variables, map ranges, time/rand sites, file-system
// write sites, panic-capable expression inventory).
//
// usage: translator <repo-dir> <out-dir>
package main

import (
	"bytes"
	"fmt"
	"go/ast"
	"go/constant"
	"go/token"
	"go/types"
	"html"
	"os"
	"path/filepath"
	"sort"
	"strconv"
	"strings"
	"unicode"

	"golang.org/x/tools/go/packages"
	"golang.org/x/tools/go/ssa"
	"golang.org/x/tools/go/ssa/ssautil"
)

const modPath = "codeberg.org/anaseto/gofrundis"

var repo string

func die(f string, a ...interface{}) {
	fmt.Fprintf(os.Stderr, "translator: "+f+"\n", a...)
	os.Exit(2)
}

func coqStr(s string) string { return "\"" + strings.ReplaceAll(s, "\"", "\"\"") + "\"" }

func runeList(s string) string {
	var p []string
	for _, c := range s {
		p = append(p, strconv.Itoa(int(c)))
	}
	return "[" + strings.Join(p, "; ") + "]"
}

func writeIfChanged(path string, data []byte) {
	old, err := os.ReadFile(path)
	if err == nil && bytes.Equal(old, data) {
		return
	}
	if err := os.WriteFile(path, data, 0644); err != nil {
		die("%v", err)
	}
}

// ---------------------------------------------------------------- tables

func findPkg(pkgs []*packages.Package, suffix string) *packages.Package {
	for _, p := range pkgs {
		if p.PkgPath == modPath+suffix {
			return p
		}
	}
	die("package %s not found", suffix)
	return nil
}

// stringSliceVar evaluates a package-level `var name = []string{...}` with constant elements.
func stringSliceVar(p *packages.Package, name string) []string {
	for _, f := range p.Syntax {
		for _, d := range f.Decls {
			gd, ok := d.(*ast.GenDecl)
			if !ok || gd.Tok != token.VAR {
				continue
			}
			for _, s := range gd.Specs {
				vs := s.(*ast.ValueSpec)
				for i, n := range vs.Names {
					if n.Name != name || i >= len(vs.Values) {
						continue
					}
					cl, ok := vs.Values[i].(*ast.CompositeLit)
					if !ok {
						die("%s is not a composite literal", name)
					}
					var out []string
					for _, e := range cl.Elts {
						tv, ok := p.TypesInfo.Types[e]
						if !ok || tv.Value == nil || tv.Value.Kind() != constant.String {
							die("%s: non-constant element at %s", name, p.Fset.Position(e.Pos()))
						}
						out = append(out, constant.StringVal(tv.Value))
					}
					return out
				}
			}
		}
	}
	die("variable %s not found", name)
	return nil
}

// replacerArgIs checks that `escaper = strings.NewReplacer(tbl...)` and that fn returns escaper.Replace(text).
func checkReplacerUse(p *packages.Package, escaper, tbl, fn string) {
	okVar, okFn := false, false
	for _, f := range p.Syntax {
		for _, d := range f.Decls {
			switch d := d.(type) {
			case *ast.GenDecl:
				for _, s := range d.Specs {
					vs, ok := s.(*ast.ValueSpec)
					if !ok {
						continue
					}
					for i, n := range vs.Names {
						if n.Name == escaper && i < len(vs.Values) {
							if c, ok := vs.Values[i].(*ast.CallExpr); ok && c.Ellipsis != token.NoPos && len(c.Args) == 1 {
								if id, ok := c.Args[0].(*ast.Ident); ok && id.Name == tbl {
									if sel, ok := c.Fun.(*ast.SelectorExpr); ok && sel.Sel.Name == "NewReplacer" {
										okVar = true
									}
								}
							}
						}
					}
				}
			case *ast.FuncDecl:
				if d.Name.Name == fn && d.Body != nil && len(d.Body.List) == 1 {
					if r, ok := d.Body.List[0].(*ast.ReturnStmt); ok && len(r.Results) == 1 {
						if c, ok := r.Results[0].(*ast.CallExpr); ok && len(c.Args) == 1 {
							if sel, ok := c.Fun.(*ast.SelectorExpr); ok && sel.Sel.Name == "Replace" {
								if id, ok := sel.X.(*ast.Ident); ok && id.Name == escaper {
									if a, ok := c.Args[0].(*ast.Ident); ok && a.Name == d.Type.Params.List[0].Names[0].Name {
										okFn = true
									}
								}
							}
						}
					}
				}
			}
		}
	}
	if !okVar || !okFn {
		die("escape.%s is no longer `%s.Replace(text)` with %s = strings.NewReplacer(%s...)", fn, escaper, escaper, tbl)
	}
}

func tableDef(name string, pairs []string) string {
	if len(pairs)%2 != 0 {
		die("%s: odd number of replacer arguments", name)
	}
	var rows []string
	for i := 0; i < len(pairs); i += 2 {
		k := []rune(pairs[i])
		if len(k) != 1 {
			die("%s: key %q is not a single rune (the generic replacer theorem covers single-rune keys)", name, pairs[i])
		}
		rows = append(rows, fmt.Sprintf("(%d, %s)", k[0], runeList(pairs[i+1])))
	}
	return fmt.Sprintf("Definition %s : list (N * list N) :=\n  [%s].\n", name, strings.Join(rows, ";\n   "))
}

func rangesDef(name string, rt *unicode.RangeTable) string {
	var rows []string
	add := func(lo, hi, stride uint32) {
		if stride == 1 {
			rows = append(rows, fmt.Sprintf("(%d, %d)", lo, hi))
			return
		}
		for c := lo; c <= hi; c += stride {
			rows = append(rows, fmt.Sprintf("(%d, %d)", c, c))
		}
	}
	for _, r := range rt.R16 {
		add(uint32(r.Lo), uint32(r.Hi), uint32(r.Stride))
	}
	for _, r := range rt.R32 {
		add(r.Lo, r.Hi, r.Stride)
	}
	var b strings.Builder
	fmt.Fprintf(&b, "Definition %s : list (N * N) :=\n  [", name)
	for i, r := range rows {
		if i > 0 {
			b.WriteString("; ")
			if i%8 == 0 {
				b.WriteString("\n   ")
			}
		}
		b.WriteString(r)
	}
	b.WriteString("].\n")
	return b.String()
}

func genTables(pkgs []*packages.Package, out string) {
	esc := findPkg(pkgs, "/escape")
	checkReplacerUse(esc, "latexEscaper", "latexEscapes", "LaTeX")
	checkReplacerUse(esc, "roffEscaper", "roffEscapes", "Roff")
	checkReplacerUse(esc, "markdownEscaper", "markdownEscapes", "Markdown")
	var b strings.Builder
	b.WriteString("(* generated by /verif/go/translator from /repo — do not edit *)\nFrom Coq Require Import List NArith.\nImport ListNotations.\nOpen Scope N_scope.\n\n")
	b.WriteString(tableDef("latex_table", stringSliceVar(esc, "latexEscapes")))
	b.WriteString(tableDef("roff_table", stringSliceVar(esc, "roffEscapes")))
	b.WriteString(tableDef("markdown_table", stringSliceVar(esc, "markdownEscapes")))
	// html.EscapeString probed over every code point
	var hp []string
	for r := rune(0); r <= unicode.MaxRune; r++ {
		if r >= 0xD800 && r <= 0xDFFF {
			continue
		}
		s := string(r)
		if e := html.EscapeString(s); e != s {
			hp = append(hp, s, e)
		}
	}
	b.WriteString(tableDef("html_table", hp))
	b.WriteString(rangesDef("white_space", unicode.White_Space))
	b.WriteString(rangesDef("punct", unicode.P))
	writeIfChanged(filepath.Join(out, "Tables.v"), []byte(b.String()))
}

// ---------------------------------------------------------------- GoLite

type golite struct {
	fset *token.FileSet
	recv string
}

func (g *golite) fail(n ast.Node, what string) {
	die("golite: unsupported %s at %s", what, g.fset.Position(n.Pos()))
}

func (g *golite) expr(e ast.Expr) string {
	switch e := e.(type) {
	case *ast.BasicLit:
		switch e.Kind {
		case token.INT:
			return "(EInt " + e.Value + ")"
		case token.STRING:
			s, _ := strconv.Unquote(e.Value)
			return "(EStr " + coqStr(s) + ")"
		}
	case *ast.Ident:
		switch e.Name {
		case "true":
			return "(EBool true)"
		case "false":
			return "(EBool false)"
		}
		return "(EVar " + coqStr(e.Name) + ")"
	case *ast.SelectorExpr:
		if x, ok := e.X.(*ast.Ident); ok && x.Name == g.recv {
			return "(EField " + coqStr(e.Sel.Name) + ")"
		}
	case *ast.UnaryExpr:
		switch e.Op {
		case token.NOT:
			return "(ENot " + g.expr(e.X) + ")"
		case token.SUB:
			if lit, ok := e.X.(*ast.BasicLit); ok && lit.Kind == token.INT {
				return "(EInt (-" + lit.Value + "))"
			}
		}
	case *ast.BinaryExpr:
		if e.Op == token.ADD {
			return "(EAdd " + g.expr(e.X) + " " + g.expr(e.Y) + ")"
		}
	case *ast.ParenExpr:
		return g.expr(e.X)
	case *ast.CallExpr:
		if sel, ok := e.Fun.(*ast.SelectorExpr); ok {
			if x, ok := sel.X.(*ast.Ident); ok && x.Name == "fmt" && sel.Sel.Name == "Sprintf" {
				var as []string
				for _, a := range e.Args[1:] {
					as = append(as, g.expr(a))
				}
				return "(ESprintf " + g.expr(e.Args[0]) + " [" + strings.Join(as, "; ") + "])"
			}
		}
	}
	g.fail(e, fmt.Sprintf("expression %T", e))
	return ""
}

func (g *golite) lval(e ast.Expr) string {
	switch e := e.(type) {
	case *ast.Ident:
		return "(LVar " + coqStr(e.Name) + ")"
	case *ast.SelectorExpr:
		if x, ok := e.X.(*ast.Ident); ok && x.Name == g.recv {
			return "(LField " + coqStr(e.Sel.Name) + ")"
		}
	}
	g.fail(e, "lvalue")
	return ""
}

func (g *golite) block(ss []ast.Stmt) string {
	var out []string
	for _, s := range ss {
		out = append(out, g.stmt(s))
	}
	return "[" + strings.Join(out, ";\n  ") + "]"
}

func (g *golite) stmt(s ast.Stmt) string {
	switch s := s.(type) {
	case *ast.IncDecStmt:
		if s.Tok == token.INC {
			return "SAdd " + g.lval(s.X) + " (EInt 1)"
		}
	case *ast.AssignStmt:
		if len(s.Lhs) == 1 && len(s.Rhs) == 1 {
			switch s.Tok {
			case token.ASSIGN, token.DEFINE:
				return "SAssign " + g.lval(s.Lhs[0]) + " " + g.expr(s.Rhs[0])
			case token.ADD_ASSIGN:
				return "SAdd " + g.lval(s.Lhs[0]) + " " + g.expr(s.Rhs[0])
			}
		}
	case *ast.IfStmt:
		if s.Init == nil {
			el := "[]"
			switch e := s.Else.(type) {
			case nil:
			case *ast.BlockStmt:
				el = g.block(e.List)
			case *ast.IfStmt:
				el = "[" + g.stmt(e) + "]"
			}
			return "SIf " + g.expr(s.Cond) + "\n  " + g.block(s.Body.List) + "\n  " + el
		}
	case *ast.SwitchStmt:
		if s.Init == nil && s.Tag != nil {
			var cases []string
			def := "None"
			for _, c := range s.Body.List {
				cc := c.(*ast.CaseClause)
				if cc.List == nil {
					def = "(Some " + g.block(cc.Body) + ")"
					continue
				}
				var vs []string
				for _, v := range cc.List {
					vs = append(vs, g.expr(v))
				}
				cases = append(cases, "(["+strings.Join(vs, "; ")+"], "+g.block(cc.Body)+")")
			}
			return "SSwitch " + g.expr(s.Tag) + "\n  [" + strings.Join(cases, ";\n   ") + "]\n  " + def
		}
	case *ast.ReturnStmt:
		var vs []string
		for _, v := range s.Results {
			vs = append(vs, g.expr(v))
		}
		return "SReturn [" + strings.Join(vs, "; ") + "]"
	case *ast.ExprStmt:
		if c, ok := s.X.(*ast.CallExpr); ok {
			if id, ok := c.Fun.(*ast.Ident); ok && id.Name == "panic" {
				return "SPanic"
			}
		}
	}
	g.fail(s, fmt.Sprintf("statement %T", s))
	return ""
}

func genGoLite(pkgs []*packages.Package, out string) {
	fr := findPkg(pkgs, "/frundis")
	want := map[string]bool{"updateHeadersCount": true, "HeaderNum": true, "HeaderLevel": true, "NavCount": true, "resetCounters": true}
	found := map[string]bool{}
	var b strings.Builder
	b.WriteString("(* generated by /verif/go/translator from /repo/frundis/toc.go — do not edit *)\nRequire Import GoLite.\nFrom Coq Require Import String List ZArith.\nImport ListNotations.\nOpen Scope string_scope. Open Scope Z_scope.\n")
	for _, f := range fr.Syntax {
		if filepath.Base(fr.Fset.Position(f.Pos()).Filename) != "toc.go" {
			continue
		}
		for _, d := range f.Decls {
			fd, ok := d.(*ast.FuncDecl)
			if !ok || !want[fd.Name.Name] {
				continue
			}
			found[fd.Name.Name] = true
			g := &golite{fset: fr.Fset}
			if fd.Recv != nil && len(fd.Recv.List) == 1 && len(fd.Recv.List[0].Names) == 1 {
				g.recv = fd.Recv.List[0].Names[0].Name
			}
			var params, results []string
			for _, p := range fd.Type.Params.List {
				for _, n := range p.Names {
					params = append(params, coqStr(n.Name))
				}
			}
			if fd.Type.Results != nil {
				for _, p := range fd.Type.Results.List {
					for _, n := range p.Names {
						results = append(results, coqStr(n.Name))
					}
				}
			}
			fmt.Fprintf(&b, "\nDefinition %s_params : list string := [%s].\n", fd.Name.Name, strings.Join(params, "; "))
			fmt.Fprintf(&b, "Definition %s_results : list string := [%s].\n", fd.Name.Name, strings.Join(results, "; "))
			fmt.Fprintf(&b, "Definition %s_body : list stmt :=\n  %s.\n", fd.Name.Name, g.block(fd.Body.List))
		}
	}
	for n := range want {
		if !found[n] {
			die("golite: function %s not found in frundis/toc.go", n)
		}
	}
	writeIfChanged(filepath.Join(out, "TocGen.v"), []byte(b.String()))
}

// ---------------------------------------------------------------- facts

func rel(pos token.Position) string {
	return strings.TrimPrefix(pos.Filename, repo+"/")
}

func strList(l []string) string {
	var q []string
	for _, s := range l {
		q = append(q, coqStr(s))
	}
	return "[" + strings.Join(q, ";\n   ") + "]"
}

func shortFn(f *ssa.Function) string {
	return strings.ReplaceAll(f.String(), modPath+"/", "")
}

func isHookFile(name string) bool { return strings.HasPrefix(filepath.Base(name), "verif_") }

// dispatchTable reads the map literal returned by frundis.<fn>: macro name -> handler function name.
func dispatchTable(p *packages.Package, fn string) []string {
	var out []string
	for _, f := range p.Syntax {
		for _, d := range f.Decls {
			fd, ok := d.(*ast.FuncDecl)
			if !ok || fd.Name.Name != fn || fd.Recv != nil || fd.Body == nil {
				continue
			}
			for _, st := range fd.Body.List {
				rs, ok := st.(*ast.ReturnStmt)
				if !ok || len(rs.Results) != 1 {
					die("%s: unexpected statement shape", fn)
				}
				cl, ok := rs.Results[0].(*ast.CompositeLit)
				if !ok {
					die("%s: return value is not a composite literal", fn)
				}
				for _, e := range cl.Elts {
					kv, ok := e.(*ast.KeyValueExpr)
					if !ok {
						die("%s: element is not key: value", fn)
					}
					k, ok1 := kv.Key.(*ast.BasicLit)
					v, ok2 := kv.Value.(*ast.Ident)
					if !ok1 || !ok2 || k.Kind != token.STRING {
						die("%s: key/value shape", fn)
					}
					ks, err := strconv.Unquote(k.Value)
					if err != nil {
						die("%s: %v", fn, err)
					}
					out = append(out, fmt.Sprintf("(%s, %s)", coqStr(ks), coqStr(v.Name)))
				}
			}
		}
	}
	if len(out) == 0 {
		die("%s: not found", fn)
	}
	return out
}

// caseNames collects, in function fn, the string literals L of every comparison `<x>.Name == L` inside case clauses
// of tagless switches (the names processBlock treats as invisible to rendering), and of `case L1, L2:` clauses of
// switches on <x>.Name, keyed by the first literal of the enclosing clause list.
func nameEqLits(p *packages.Package, fn string) []string {
	var out []string
	for _, f := range p.Syntax {
		for _, d := range f.Decls {
			fd, ok := d.(*ast.FuncDecl)
			if !ok || fd.Name.Name != fn || fd.Body == nil {
				continue
			}
			ast.Inspect(fd.Body, func(n ast.Node) bool {
				sw, ok := n.(*ast.SwitchStmt)
				if !ok || sw.Tag != nil {
					return true
				}
				for _, c := range sw.Body.List {
					cc := c.(*ast.CaseClause)
					for _, e := range cc.List {
						be, ok := e.(*ast.BinaryExpr)
						if !ok || be.Op != token.EQL {
							continue
						}
						sel, ok1 := be.X.(*ast.SelectorExpr)
						lit, ok2 := be.Y.(*ast.BasicLit)
						if ok1 && ok2 && sel.Sel.Name == "Name" && lit.Kind == token.STRING {
							v, _ := strconv.Unquote(lit.Value)
							out = append(out, coqStr(v))
						}
					}
				}
				return true
			})
		}
	}
	return out
}

// optionSpecs reads every package-level `var specOptX = map[string]Option{...}` of package frundis.
func optionSpecs(p *packages.Package) []string {
	var out []string
	for _, f := range p.Syntax {
		for _, d := range f.Decls {
			gd, ok := d.(*ast.GenDecl)
			if !ok || gd.Tok != token.VAR {
				continue
			}
			for _, sp := range gd.Specs {
				vs := sp.(*ast.ValueSpec)
				for i, nm := range vs.Names {
					if !strings.HasPrefix(nm.Name, "specOpt") || i >= len(vs.Values) {
						continue
					}
					cl, ok := vs.Values[i].(*ast.CompositeLit)
					if !ok {
						die("%s: not a composite literal", nm.Name)
					}
					var kvs []string
					for _, e := range cl.Elts {
						kv, ok := e.(*ast.KeyValueExpr)
						if !ok {
							die("%s: element shape", nm.Name)
						}
						k, ok1 := kv.Key.(*ast.BasicLit)
						v, ok2 := kv.Value.(*ast.Ident)
						if !ok1 || !ok2 || (v.Name != "ArgOption" && v.Name != "FlagOption") {
							die("%s: key/value shape", nm.Name)
						}
						ks, _ := strconv.Unquote(k.Value)
						kvs = append(kvs, fmt.Sprintf("(%s, %v)", coqStr(ks), v.Name == "ArgOption"))
					}
					out = append(out, fmt.Sprintf("(%s, [%s])", coqStr(nm.Name), strings.Join(kvs, "; ")))
				}
			}
		}
	}
	sort.Strings(out)
	if len(out) == 0 {
		die("no option specs found")
	}
	return out
}

// parseOptionsUses lists, per function of package frundis, the spec identifiers it passes to ParseOptions.
func parseOptionsUses(p *packages.Package) []string {
	var out []string
	for _, f := range p.Syntax {
		for _, d := range f.Decls {
			fd, ok := d.(*ast.FuncDecl)
			if !ok || fd.Body == nil {
				continue
			}
			ast.Inspect(fd.Body, func(n ast.Node) bool {
				ce, ok := n.(*ast.CallExpr)
				if !ok {
					return true
				}
				sel, ok := ce.Fun.(*ast.SelectorExpr)
				if !ok || sel.Sel.Name != "ParseOptions" || len(ce.Args) < 1 {
					return true
				}
				name := "<computed>"
				if id, ok := ce.Args[0].(*ast.Ident); ok {
					name = id.Name
				}
				out = append(out, fmt.Sprintf("(%s, %s)", coqStr(fd.Name.Name), coqStr(name)))
				return true
			})
		}
	}
	sort.Strings(out)
	return uniq(out)
}

// stringSwitches: for every function, the string-literal case lists of its switch statements, in source order
// (clauses with a non-literal expression are skipped).
func stringSwitches(pkgs []*packages.Package) []string {
	var out []string
	for _, p := range pkgs {
		if !strings.Contains(p.PkgPath, "gofrundis") {
			continue
		}
		for _, f := range p.Syntax {
			if isHookFile(p.Fset.Position(f.Pos()).Filename) {
				continue
			}
			for _, d := range f.Decls {
				fd, ok := d.(*ast.FuncDecl)
				if !ok || fd.Body == nil {
					continue
				}
				var clauses []string
				ast.Inspect(fd.Body, func(n ast.Node) bool {
					sw, ok := n.(*ast.SwitchStmt)
					if !ok || sw.Tag == nil {
						return true
					}
					for _, c := range sw.Body.List {
						cc := c.(*ast.CaseClause)
						if len(cc.List) == 0 {
							continue
						}
						var lits []string
						all := true
						for _, e := range cc.List {
							bl, ok := e.(*ast.BasicLit)
							if !ok || bl.Kind != token.STRING {
								all = false
								break
							}
							v, _ := strconv.Unquote(bl.Value)
							lits = append(lits, coqStr(v))
						}
						if all {
							clauses = append(clauses, "["+strings.Join(lits, "; ")+"]")
						}
					}
					return true
				})
				if len(clauses) > 0 {
					name := p.Name + "." + fd.Name.Name
					out = append(out, fmt.Sprintf("(%s,\n    [%s])", coqStr(name), strings.Join(clauses, ";\n     ")))
				}
			}
		}
	}
	sort.Strings(out)
	return out
}

// charSetCalls: per function, the string literals handed as character sets to strings.ContainsAny, strings.IndexAny and
// strings.Trim, in source order (the characters a value is checked against before it is written into markup).
func charSetCalls(pkgs []*packages.Package) []string {
	var out []string
	for _, p := range pkgs {
		if !strings.Contains(p.PkgPath, "gofrundis") {
			continue
		}
		for _, f := range p.Syntax {
			if isHookFile(p.Fset.Position(f.Pos()).Filename) {
				continue
			}
			for _, d := range f.Decls {
				fd, ok := d.(*ast.FuncDecl)
				if !ok || fd.Body == nil {
					continue
				}
				var lits []string
				ast.Inspect(fd.Body, func(n ast.Node) bool {
					c, ok := n.(*ast.CallExpr)
					if !ok || len(c.Args) != 2 {
						return true
					}
					se, ok := c.Fun.(*ast.SelectorExpr)
					if !ok {
						return true
					}
					x, ok := se.X.(*ast.Ident)
					if !ok || x.Name != "strings" || (se.Sel.Name != "ContainsAny" && se.Sel.Name != "IndexAny" && se.Sel.Name != "Trim") {
						return true
					}
					if bl, ok := c.Args[1].(*ast.BasicLit); ok && bl.Kind == token.STRING {
						v, _ := strconv.Unquote(bl.Value)
						lits = append(lits, coqStr(v))
					}
					return true
				})
				if len(lits) > 0 {
					out = append(out, fmt.Sprintf("(%s, [%s])", coqStr(p.Name+"."+fd.Name.Name), strings.Join(lits, "; ")))
				}
			}
		}
	}
	sort.Strings(out)
	return out
}

// replacerVars: package-level variables initialised with strings.NewReplacer over string literals.
func replacerVars(pkgs []*packages.Package) []string {
	var out []string
	for _, p := range pkgs {
		if !strings.Contains(p.PkgPath, "gofrundis") {
			continue
		}
		for _, f := range p.Syntax {
			if isHookFile(p.Fset.Position(f.Pos()).Filename) {
				continue
			}
			for _, d := range f.Decls {
				gd, ok := d.(*ast.GenDecl)
				if !ok || gd.Tok != token.VAR {
					continue
				}
				for _, s := range gd.Specs {
					vs := s.(*ast.ValueSpec)
					if len(vs.Names) != 1 || len(vs.Values) != 1 {
						continue
					}
					c, ok := vs.Values[0].(*ast.CallExpr)
					if !ok {
						continue
					}
					se, ok := c.Fun.(*ast.SelectorExpr)
					if !ok || se.Sel.Name != "NewReplacer" {
						continue
					}
					var lits []string
					all := true
					for _, a := range c.Args {
						bl, ok := a.(*ast.BasicLit)
						if !ok || bl.Kind != token.STRING {
							all = false
							break
						}
						v, _ := strconv.Unquote(bl.Value)
						lits = append(lits, coqStr(v))
					}
					if all && len(lits) > 0 {
						out = append(out, fmt.Sprintf("(%s, [%s])", coqStr(p.Name+"."+vs.Names[0].Name), strings.Join(lits, "; ")))
					}
				}
			}
		}
	}
	sort.Strings(out)
	return out
}

// stringSliceAssign: the []string literal assigned to a field or variable called name, anywhere in package p.
func stringSliceAssign(p *packages.Package, name string) []string {
	var out []string
	for _, f := range p.Syntax {
		ast.Inspect(f, func(n ast.Node) bool {
			as, ok := n.(*ast.AssignStmt)
			if !ok || len(as.Lhs) != 1 || len(as.Rhs) != 1 {
				return true
			}
			sel, ok := as.Lhs[0].(*ast.SelectorExpr)
			if !ok || sel.Sel.Name != name {
				return true
			}
			cl, ok := as.Rhs[0].(*ast.CompositeLit)
			if !ok {
				return true
			}
			for _, e := range cl.Elts {
				if bl, ok := e.(*ast.BasicLit); ok && bl.Kind == token.STRING {
					v, _ := strconv.Unquote(bl.Value)
					out = append(out, coqStr(v))
				}
			}
			return true
		})
	}
	return out
}

// intConst: value of an untyped integer constant of package p.
func intConst(p *packages.Package, name string) string {
	obj := p.Types.Scope().Lookup(name)
	c, ok := obj.(*types.Const)
	if !ok {
		die("constant %s not found", name)
	}
	return c.Val().ExactString()
}

func genFacts(pkgs []*packages.Package, out string) {
	prog, _ := ssautil.AllPackages(pkgs, ssa.InstantiateGenerics)
	prog.Build()
	inModule := func(p *types.Package) bool { return p != nil && strings.HasPrefix(p.Path(), modPath) }
	isExec := func(f *ssa.Function) bool {
		if f == nil || f.Pkg == nil {
			return false
		}
		p, n := f.Pkg.Pkg.Path(), f.Name()
		return p == "os/exec" || (p == "os" && n == "StartProcess") || (p == "syscall" && (n == "ForkExec" || n == "Exec" || n == "StartProcess"))
	}
	var all []*ssa.Function
	for f := range ssautil.AllFunctions(prog) {
		if f.Pkg != nil && inModule(f.Pkg.Pkg) && f.Synthetic == "" {
			all = append(all, f)
		}
	}
	sort.Slice(all, func(i, j int) bool { return all[i].String() < all[j].String() })
	// functions that create a command (transitively: any module function containing a static call into os/exec constructors)
	creates := map[*ssa.Function]bool{}
	var execSites []string
	for _, f := range all {
		for _, b := range f.Blocks {
			for _, in := range b.Instrs {
				if c, ok := in.(ssa.CallInstruction); ok {
					cal := c.Common().StaticCallee()
					if isExec(cal) {
						if cal.Signature.Recv() == nil { // constructor / starter, not a method on *Cmd
							execSites = append(execSites, shortFn(f)+" -> "+cal.String())
							creates[f] = true
						}
					}
				}
			}
		}
	}
	// propagate "creates" to callers until a guard is found: we list every call edge into a creating function
	type edge struct {
		caller, callee string
		guarded        bool
	}
	var edges []edge
	guardedAt := func(b *ssa.BasicBlock) bool {
		for d := b; d != nil; d = d.Idom() {
			idom := d.Idom()
			if idom == nil {
				break
			}
			ifi, ok := idom.Instrs[len(idom.Instrs)-1].(*ssa.If)
			if !ok {
				continue
			}
			cond := ifi.Cond
			neg := false
			if u, ok := cond.(*ssa.UnOp); ok && u.Op == token.NOT {
				neg = true
				cond = u.X
			}
			ld, ok := cond.(*ssa.UnOp)
			if !ok || ld.Op != token.MUL {
				continue
			}
			fa, ok := ld.X.(*ssa.FieldAddr)
			if !ok {
				continue
			}
			st := fa.X.Type().Underlying().(*types.Pointer).Elem().Underlying().(*types.Struct)
			if st.Field(fa.Field).Name() != "Unrestricted" {
				continue
			}
			want := idom.Succs[0]
			if neg {
				want = idom.Succs[1]
			}
			if want.Dominates(b) {
				return true
			}
		}
		return false
	}
	work := true
	seenEdge := map[string]bool{}
	for work {
		work = false
		for _, f := range all {
			for _, b := range f.Blocks {
				for _, in := range b.Instrs {
					c, ok := in.(ssa.CallInstruction)
					if !ok {
						continue
					}
					cal := c.Common().StaticCallee()
					if cal == nil || !creates[cal] || cal == f {
						continue
					}
					g := guardedAt(b)
					key := fmt.Sprintf("%s|%s|%d", f, cal, in.Pos())
					if !seenEdge[key] {
						seenEdge[key] = true
						edges = append(edges, edge{shortFn(f), shortFn(cal), g})
					}
					if !g && !creates[f] {
						creates[f] = true // unguarded caller is itself a creating function
						work = true
					}
				}
			}
		}
	}
	sort.Slice(edges, func(i, j int) bool {
		if edges[i].caller != edges[j].caller {
			return edges[i].caller < edges[j].caller
		}
		return edges[i].callee < edges[j].callee
	})
	var writers []string
	for _, f := range all {
		for _, b := range f.Blocks {
			for _, in := range b.Instrs {
				if st, ok := in.(*ssa.Store); ok {
					if fa, ok := st.Addr.(*ssa.FieldAddr); ok {
						s := fa.X.Type().Underlying().(*types.Pointer).Elem().Underlying().(*types.Struct)
						if s.Field(fa.Field).Name() == "Unrestricted" {
							writers = append(writers, shortFn(f))
						}
					}
				}
			}
		}
	}
	// dynamic calls of function values / interface methods that could reach exec are out of scope of the static fact;
	// we record whether any module function takes the address of / stores getCommand-like creators
	var creatorRefs []string
	for _, f := range all {
		for _, b := range f.Blocks {
			for _, in := range b.Instrs {
				var ops []*ssa.Value
				for _, op := range in.Operands(ops) {
					if fn, ok := (*op).(*ssa.Function); ok && creates[fn] {
						if c, ok := in.(ssa.CallInstruction); ok && c.Common().StaticCallee() == fn {
							continue
						}
						creatorRefs = append(creatorRefs, shortFn(f)+" references "+shortFn(fn))
					}
				}
			}
		}
	}

	// AST inventories
	type cnt struct{ index, slice, assert, repeat, panics int }
	perFile := map[string]*cnt{}
	var fsCalls, globals, mutGlobals, mapRanges, timeRand []string
	for _, p := range pkgs {
		if !strings.HasPrefix(p.PkgPath, modPath) {
			continue
		}
		// package-level vars
		pkgVars := map[types.Object]string{}
		for _, f := range p.Syntax {
			name := p.Fset.Position(f.Pos()).Filename
			if strings.HasSuffix(name, "_test.go") || isHookFile(name) {
				continue
			}
			for _, d := range f.Decls {
				if gd, ok := d.(*ast.GenDecl); ok && gd.Tok == token.VAR {
					for _, s := range gd.Specs {
						for _, n := range s.(*ast.ValueSpec).Names {
							if n.Name == "_" {
								continue
							}
							o := p.TypesInfo.Defs[n]
							label := rel(p.Fset.Position(n.Pos())) + ":" + n.Name
							pkgVars[o] = label
							globals = append(globals, label+" "+strings.ReplaceAll(o.Type().String(), modPath+"/", ""))
						}
					}
				}
			}
		}
		mutated := map[string]bool{}
		for _, f := range p.Syntax {
			name := p.Fset.Position(f.Pos()).Filename
			if strings.HasSuffix(name, "_test.go") || isHookFile(name) {
				continue
			}
			short := rel(p.Fset.Position(f.Pos()))
			c := &cnt{}
			perFile[short] = c
			for _, d := range f.Decls {
				fd, ok := d.(*ast.FuncDecl)
				if !ok || fd.Body == nil {
					continue
				}
				isInit := fd.Name.Name == "init" && fd.Recv == nil
				ast.Inspect(fd.Body, func(n ast.Node) bool {
					// a package-level variable is "mutated" if outside init it is assigned, inc/dec'ed, has its address taken,
					// is the receiver of a pointer-method call, or is indexed on the left of an assignment
					mark := func(e ast.Expr) {
						for {
							switch x := e.(type) {
							case *ast.IndexExpr:
								e = x.X
								continue
							case *ast.SelectorExpr:
								e = x.X
								continue
							case *ast.ParenExpr:
								e = x.X
								continue
							case *ast.StarExpr:
								e = x.X
								continue
							}
							break
						}
						if id, ok := e.(*ast.Ident); ok {
							if l, ok := pkgVars[p.TypesInfo.Uses[id]]; ok && !isInit {
								mutated[l] = true
							}
						}
					}
					switch n := n.(type) {
					case *ast.AssignStmt:
						for _, l := range n.Lhs {
							mark(l)
						}
					case *ast.IncDecStmt:
						mark(n.X)
					case *ast.UnaryExpr:
						if n.Op == token.AND {
							mark(n.X)
						}
					case *ast.CallExpr:
						if sel, ok := n.Fun.(*ast.SelectorExpr); ok {
							if s, ok := p.TypesInfo.Selections[sel]; ok && s.Kind() == types.MethodVal {
								if sig, ok := s.Obj().Type().(*types.Signature); ok && sig.Recv() != nil {
									if _, ptr := sig.Recv().Type().(*types.Pointer); ptr {
										if id, ok := sel.X.(*ast.Ident); ok {
											if l, ok := pkgVars[p.TypesInfo.Uses[id]]; ok && !isInit {
												// pointer-receiver method on an addressable package variable
												if _, isPtr := p.TypesInfo.TypeOf(id).(*types.Pointer); !isPtr {
													mutated[l] = true
												}
											}
										}
									}
								}
							}
						}
					}
					return true
				})
			}
			ast.Inspect(f, func(n ast.Node) bool {
				switch n := n.(type) {
				case *ast.IndexExpr:
					if t := p.TypesInfo.TypeOf(n.X); t != nil {
						if _, isMap := t.Underlying().(*types.Map); !isMap {
							if _, isSig := t.Underlying().(*types.Signature); !isSig {
								c.index++
							}
						}
					}
				case *ast.SliceExpr:
					c.slice++
				case *ast.TypeAssertExpr:
					if n.Type != nil {
						c.assert++
					}
				case *ast.RangeStmt:
					if t := p.TypesInfo.TypeOf(n.X); t != nil {
						if _, isMap := t.Underlying().(*types.Map); isMap {
							mapRanges = append(mapRanges, fmt.Sprintf("%s:%s", short, enclosingFunc(f, n.Pos())))
						}
					}
				case *ast.CallExpr:
					if sel, ok := n.Fun.(*ast.SelectorExpr); ok {
						if x, ok := sel.X.(*ast.Ident); ok {
							if pn, ok := p.TypesInfo.Uses[x].(*types.PkgName); ok {
								full := pn.Imported().Path() + "." + sel.Sel.Name
								switch full {
								case "os.Create", "os.WriteFile", "os.Mkdir", "os.MkdirAll", "os.CreateTemp", "os.MkdirTemp", "os.Remove", "os.RemoveAll", "os.OpenFile", "os.Rename", "os.Symlink", "os.Link", "os.Chdir", "os.Truncate", "io/ioutil.WriteFile", "io/ioutil.TempFile", "io/ioutil.TempDir":
									fsCalls = append(fsCalls, fmt.Sprintf("%s:%s %s", short, enclosingFunc(f, n.Pos()), full))
								case "strings.Repeat":
									c.repeat++
								case "time.Now", "crypto/rand.Read", "math/rand.Read", "math/rand.Int", "math/rand.Intn", "os.Getpid", "os.Hostname":
									timeRand = append(timeRand, fmt.Sprintf("%s:%s %s", short, enclosingFunc(f, n.Pos()), full))
								}
							}
						}
					}
					if id, ok := n.Fun.(*ast.Ident); ok && id.Name == "panic" {
						c.panics++
					}
				}
				return true
			})
		}
		for l := range mutated {
			mutGlobals = append(mutGlobals, l)
		}
	}
	sort.Strings(mutGlobals)
	sort.Strings(globals)
	sort.Strings(fsCalls)
	sort.Strings(mapRanges)
	sort.Strings(timeRand)
	sort.Strings(execSites)
	sort.Strings(writers)
	sort.Strings(creatorRefs)
	writers = uniq(writers)

	var b strings.Builder
	b.WriteString("(* generated by /verif/go/translator from /repo — do not edit *)\nFrom Coq Require Import String List NArith.\nImport ListNotations.\nOpen Scope string_scope.\n\n")
	fmt.Fprintf(&b, "Definition exec_sites : list string :=\n  %s.\n\n", strList(execSites))
	var er []string
	for _, e := range edges {
		er = append(er, fmt.Sprintf("(%s, %s, %v)", coqStr(e.caller), coqStr(e.callee), e.guarded))
	}
	fmt.Fprintf(&b, "Definition exec_callers : list (string * string * bool) :=\n  [%s].\n\n", strings.Join(er, ";\n   "))
	fmt.Fprintf(&b, "Definition exec_creator_refs : list string :=\n  %s.\n\n", strList(creatorRefs))
	fmt.Fprintf(&b, "Definition unrestricted_writers : list string :=\n  %s.\n\n", strList(writers))
	fmt.Fprintf(&b, "Definition package_vars : list string :=\n  %s.\n\n", strList(globals))
	fmt.Fprintf(&b, "Definition mutated_package_vars : list string :=\n  %s.\n\n", strList(mutGlobals))
	fmt.Fprintf(&b, "Definition map_range_sites : list string :=\n  %s.\n\n", strList(mapRanges))
	fmt.Fprintf(&b, "Definition time_rand_sites : list string :=\n  %s.\n\n", strList(timeRand))
	fmt.Fprintf(&b, "Definition fs_write_sites : list string :=\n  %s.\n\n", strList(fsCalls))
	fr := findPkg(pkgs, "/frundis")
	fmt.Fprintf(&b, "(* frundis.DefaultExporterMacros / MinimalExporterMacros: macro name, handler *)\nDefinition dispatch_table : list (string * string) :=\n  [%s].\n\n", strings.Join(dispatchTable(fr, "DefaultExporterMacros"), ";\n   "))
	fmt.Fprintf(&b, "Definition minimal_dispatch_table : list (string * string) :=\n  [%s].\n\n", strings.Join(dispatchTable(fr, "MinimalExporterMacros"), ";\n   "))
	fmt.Fprintf(&b, "(* options.go: per option table, option name and whether it takes an argument *)\nDefinition opt_specs : list (string * list (string * bool)) :=\n  [%s].\n\n", strings.Join(optionSpecs(fr), ";\n   "))
	fmt.Fprintf(&b, "(* which table each function hands to ParseOptions *)\nDefinition parse_options_uses : list (string * string) :=\n  [%s].\n\n", strings.Join(parseOptionsUses(fr), ";\n   "))
	fmt.Fprintf(&b, "(* string-literal case lists of every switch, per function *)\nDefinition string_switches : list (string * list (list string)) :=\n  [%s].\n\n", strings.Join(stringSwitches(pkgs), ";\n   "))
	fmt.Fprintf(&b, "Definition valid_formats : list string :=\n  [%s].\n\n", strings.Join(stringSliceAssign(fr, "validFormats"), "; "))
	fmt.Fprintf(&b, "(* character sets given to strings.ContainsAny / IndexAny / Trim, per function, in source order *)\nDefinition char_set_calls : list (string * list string) :=\n  [%s].\n\n", strings.Join(charSetCalls(pkgs), ";\n   "))
	fmt.Fprintf(&b, "(* package-level strings.NewReplacer tables *)\nDefinition replacer_vars : list (string * list string) :=\n  [%s].\n\n", strings.Join(replacerVars(pkgs), ";\n   "))
	fmt.Fprintf(&b, "Definition max_macro_expansions : N := %s.\nDefinition max_macro_args_size : N := %s.\n\n", intConst(fr, "maxMacroExpansions"), intConst(fr, "maxMacroArgsSize"))
	fmt.Fprintf(&b, "(* processBlock: macro names that do not become PrevMacro *)\nDefinition invisible_names : list string :=\n  [%s].\n\n", strings.Join(nameEqLits(fr, "processBlock"), "; "))
	var files []string
	for f := range perFile {
		files = append(files, f)
	}
	sort.Strings(files)
	var pr []string
	for _, f := range files {
		c := perFile[f]
		if c.index+c.slice+c.assert+c.repeat+c.panics == 0 {
			continue
		}
		pr = append(pr, fmt.Sprintf("(%s, [%d; %d; %d; %d; %d])", coqStr(f), c.index, c.slice, c.assert, c.repeat, c.panics))
	}
	fmt.Fprintf(&b, "(* per file: index on non-map, slice expression, type assertion, strings.Repeat, explicit panic *)\nDefinition panic_sites : list (string * list nat) :=\n  [%s].\n", strings.Join(pr, ";\n   "))
	writeIfChanged(filepath.Join(out, "Facts.v"), []byte(b.String()))
}

func uniq(l []string) []string {
	var o []string
	for i, s := range l {
		if i == 0 || s != l[i-1] {
			o = append(o, s)
		}
	}
	return o
}

func enclosingFunc(f *ast.File, pos token.Pos) string {
	for _, d := range f.Decls {
		if fd, ok := d.(*ast.FuncDecl); ok && fd.Pos() <= pos && pos <= fd.End() {
			return fd.Name.Name
		}
	}
	return "<file>"
}

func main() {
	if len(os.Args) != 3 {
		die("usage: translator <repo-dir> <out-dir>")
	}
	repo = os.Args[1]
	out := os.Args[2]
	cfg := &packages.Config{Mode: packages.LoadAllSyntax, Dir: repo}
	pkgs, err := packages.Load(cfg, "./...")
	if err != nil {
		die("load: %v", err)
	}
	if packages.PrintErrors(pkgs) > 0 {
		die("package errors")
	}
	genTables(pkgs, out)
	genGoLite(pkgs, out)
	genFacts(pkgs, out)
}
