(* Hand-written driver for the extracted model: reads case lines on stdin, prints one
   canonical result line per case, in the same format as /verif/go/harness. *)
module L = Stdlib.List
module S = Stdlib.String
open BinNums
open Datatypes

let rec pos_of_int i = if i = 1 then Coq_xH else if i land 1 = 0 then Coq_xO (pos_of_int (i lsr 1)) else Coq_xI (pos_of_int (i lsr 1))
let n_of_int i = if i = 0 then N0 else Npos (pos_of_int i)
let rec int_of_pos = function Coq_xH -> 1 | Coq_xO p -> 2 * int_of_pos p | Coq_xI p -> 2 * int_of_pos p + 1
let int_of_n = function N0 -> 0 | Npos p -> int_of_pos p
let rec int_of_nat = function O -> 0 | S n -> 1 + int_of_nat n
let rec nat_of_int i = if i = 0 then O else S (nat_of_int (i - 1))
let runes_sep sep l = S.concat sep (L.map (fun n -> string_of_int (int_of_n n)) l)
let runes l = runes_sep "," l
let fields c s = L.filter (fun s -> s <> "") (S.split_on_char c s)
let unrunes s = L.map (fun x -> n_of_int (int_of_string x)) (L.concat_map (fields ' ') (fields ',' s))
let of_ascii s = L.init (S.length s) (fun i -> n_of_int (Char.code (S.get s i)))

let each_line f = try while true do f (input_line stdin) done with End_of_file -> ()

(* ---- reflow: "<indent> r1 r2 ..." -> "r1 r2 ..." *)
let reflow () = each_line (fun l ->
  match fields ' ' l with
  | [] -> print_endline ""
  | ind :: rs ->
    let out = ExtAll.reflow_c (nat_of_int (int_of_string ind)) (L.map (fun s -> n_of_int (int_of_string s)) rs) in
    print_endline (runes_sep " " out))

(* ---- typo: items "T:1,2 E:38 V:118" -> "<french> | <nerr> | <english>" *)
let typo () =
  let show = function Typo.IText s -> "T:" ^ runes s | Typo.IEsc s -> "E:" ^ runes s | Typo.IOther (_, s) -> "V:" ^ runes s in
  let parse_item it =
    let body = S.sub it 2 (S.length it - 2) in
    let rs = unrunes body in
    match (S.get it 0) with 'T' -> Typo.IText rs | 'E' -> Typo.IEsc rs | _ -> Typo.IOther (N0, rs) in
  each_line (fun l ->
    let items = L.map parse_item (fields ' ' l) in
    let (fr, errs) = Typo.french items in
    let en = Typo.english items in
    Printf.printf "%s | %d | %s\n" (S.concat " " (L.map show fr)) (int_of_nat errs) (S.concat " " (L.map show en)))

(* ---- parse: "r1 r2 ..." -> blocks *)
let parse () =
  let inl = function
    | Scan.IText s -> "T:" ^ runes s | Scan.IEsc s -> "E:" ^ runes s | Scan.IVar s -> "V:" ^ runes s
    | Scan.IArg n -> "A:" ^ string_of_int (int_of_n n) | Scan.INamed s -> "N:" ^ runes s | Scan.IFlag s -> "F:" ^ runes s in
  let arg a = "(" ^ S.concat " " (L.map inl a) ^ ")" in
  let blk = function
    | Scan.BMacro (n, args, l) -> Printf.sprintf "M%d:%s%s" (int_of_nat l) (runes n) (S.concat "" (L.map arg args))
    | Scan.BText (t, l) -> Printf.sprintf "X%d:%s" (int_of_nat l) (arg t) in
  each_line (fun l ->
    let (bs, e) = Scan.parse (unrunes l) in
    print_endline (S.concat " # " (L.map blk bs) ^ (match e with None -> "" | Some _ -> " ERR")))

(* ---- path: "a|b" (runes) -> clean a | join a b | base a | join a EPUB b *)
let path () = each_line (fun l ->
  match S.split_on_char '|' l with
  | [a; b] ->
    let a = unrunes a and b = unrunes b in
    Printf.printf "%s|%s|%s|%s\n" (runes (PathClean.clean a)) (runes (PathClean.join [a; b])) (runes (PathClean.base a))
      (runes (PathClean.join [a; of_ascii "EPUB"; b]))
  | _ -> print_endline "?")

(* ---- esc: "<table> r1 r2 ..." -> enc | dec(enc) *)
let esc () = each_line (fun l ->
  match fields ' ' l with
  | [] -> print_endline ""
  | t :: rs ->
    let tbl = match t with "latex" -> Tables.latex_table | "roff" -> Tables.roff_table | "markdown" -> Tables.markdown_table | _ -> Tables.html_table in
    let s = L.map (fun x -> n_of_int (int_of_string x)) rs in
    let e = Repl.enc tbl s in
    let d = match Repl.dec tbl (nat_of_int (L.length e)) e with Some d -> if d = s then "RT" else "BAD:" ^ runes d | None -> "NONE" in
    Printf.printf "%s | %s\n" (runes_sep " " e) d)

(* ---- uni: "c" -> is_space is_punct *)
let uni () = each_line (fun l ->
  let c = n_of_int (int_of_string (S.trim l)) in
  Printf.printf "%b %b\n" (Unicode.is_space c) (Unicode.is_punct c))

(* ---- e2e: "<f><mode>[x] r1 r2 ... [| F name=content]* [| L dir]*" -> "OK path=runes;... | diags"  or "PANIC runes" *)
let split_on_str sep s =
  let n = S.length sep in
  let rec go acc i j =
    if j + n > S.length s then L.rev (S.sub s i (S.length s - i) :: acc)
    else if S.sub s j n = sep then go (S.sub s i (j - i) :: acc) (j + n) (j + n)
    else go acc i (j + 1) in
  go [] 0 0
let e2e () = each_line (fun l ->
  let parts = split_on_str " | " l in
  let hd = S.trim (L.hd parts) in
  let (f, rest) = match S.index_opt hd ' ' with Some i -> (S.sub hd 0 i, S.sub hd (i + 1) (S.length hd - i - 1)) | None -> (hd, "") in
  let rs = unrunes rest in
  let name = match (S.get f 0) with 'l' -> "latex" | 'm' -> "mom" | 'k' -> "markdown" | 'e' -> "epub" | _ -> "xhtml" in
  let md = if S.length f > 1 && (S.get f 1) >= '0' && (S.get f 1) <= '9' then Char.code (S.get f 1) - 48 else 0 in
  let md = if (S.get f 0) = 'e' then 3 else md in
  let unr = S.contains f 'x' && (S.index f 'x' > 0 || S.length f > 1 && S.contains (S.sub f 1 (S.length f - 1)) 'x') in
  let unr = unr && S.contains (S.sub f 1 (S.length f - 1)) 'x' in
  let main = of_ascii "w/d.frundis" in
  let files = ref [(main, rs)] and libs = ref [] and urls = ref [] in
  L.iter (fun p ->
    let p = S.trim p in
    if S.length p > 2 && (S.get p 0) = 'F' then begin
      match S.index_opt p '=' with
      | Some i -> files := !files @ [(unrunes (S.sub p 2 (i - 2)), unrunes (S.sub p (i + 1) (S.length p - i - 1)))]
      | None -> () end
    else if S.length p > 2 && (S.get p 0) = 'U' then begin
      match S.index_opt p '=' with
      | Some i -> let v = S.sub p (i + 1) (S.length p - i - 1) in
                  urls := !urls @ [(unrunes (S.sub p 2 (i - 2)), if v = "!" then None else Some (unrunes v))]
      | None -> () end
    else if S.length p > 2 && (S.get p 0) = 'L' then libs := !libs @ [unrunes (S.sub p 2 (S.length p - 2))]) (L.tl parts);
  let wd = Loop.{ w_existing = L.map of_ascii ["i.png"; "i.pdf"; "i.eps"; "img.png"; "b\\.png"; "d\\"; "c&o.png"; "c\"o.png"; "."; ".."]; w_fs = !files; w_libdirs = !libs; w_unrestricted = unr; w_urls = !urls } in
  let s = Loop.compile_source (of_ascii name) (nat_of_int md) wd main in
  match s.St.panicked with
  | Some m -> Printf.printf "PANIC %s\n" (runes m)
  | None ->
    let ds = L.map (fun d ->
        Printf.sprintf "%s;%s;%s;%s;%s"
          (match d.St.d_line with Some n -> string_of_int (int_of_nat n) | None -> "EOF")
          (match d.St.d_user with Some u -> runes u | None -> "-")
          (runes d.St.d_macro) (runes d.St.d_kind) (runes d.St.d_file)) (St.diagnostics s) in
    let fs = S.concat ";" (L.map (fun (p, c) -> runes p ^ "=" ^ runes c) s.St.files) in
    Printf.printf "OK %s | %s\n" fs (S.concat " " ds))

let table : (string * (unit -> unit)) list ref = ref
  ["reflow", reflow; "typo", typo; "parse", parse; "path", path; "esc", esc; "uni", uni; "e2e", e2e]
