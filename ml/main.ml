let () =
  match Stdlib.List.assoc_opt Sys.argv.(1) !Driver.table with
  | Some f -> f ()
  | None -> prerr_endline ("unknown stream " ^ Sys.argv.(1)); exit 2
